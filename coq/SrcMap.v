(** * Source maps: positions, greatest-lower-bound lookup, chaining, the JS binary search,
    base64-VLQ (model side; proofs are in P_SrcMap.v).

    - [lookup] is the specification of resolving a generated position: the last token, in list
      order, whose generated position is <= the queried one (on a sorted list: the glb).
    - [chain] mirrors [chain_source_maps] (rewriter.rs): every token of the rewrite map whose
      source position resolves in the original map is re-targeted, the others are dropped.
    - [find_entry] mirrors [SourceMap.findEntry] (js/source-map/node_source_map.js), the loop run on
      explicit fuel (= number of mappings; out-of-fuel is impossible, see P_SrcMap).
    - [vlq_encode]/[vlq_decode]: the base64 VLQ of source-map v3 (used by the checks as a decoder
      that is independent of the sourcemap crate and of node_source_map.js). *)
From Coq Require Import String List NArith ZArith Bool Ascii Arith Lia.
Import ListNotations.

Definition pos := (N * N)%type.          (* (line, column), both 0-based *)

Definition ple (a b : pos) : bool :=
  (N.ltb (fst a) (fst b) || (N.eqb (fst a) (fst b) && N.leb (snd a) (snd b)))%bool.
Definition plt (a b : pos) : bool :=
  (N.ltb (fst a) (fst b) || (N.eqb (fst a) (fst b) && N.ltb (snd a) (snd b)))%bool.

Section Lookup.
  Context {A : Type}.
  Definition token := (pos * A)%type.

  Fixpoint lookup_from (acc : option token) (m : list token) (p : pos) : option token :=
    match m with
    | [] => acc
    | t :: m' => lookup_from (if ple (fst t) p then Some t else acc) m' p
    end.
  Definition lookup (m : list token) (p : pos) : option token := lookup_from None m p.

  Fixpoint sorted (m : list token) : Prop :=
    match m with
    | [] => True
    | t :: m' => (forall t', In t' m' -> ple (fst t) (fst t') = true) /\ sorted m'
    end.

  (** [SourceMap.findEntry]: binary search for the last mapping <= (line, column). *)
  Fixpoint find_loop (fuel : nat) (m : list token) (first count : nat) (p : pos) : nat :=
    match fuel with
    | 0 => first
    | S f =>
        if Nat.leb count 1 then first
        else
          let step := Nat.div2 count in
          let middle := first + step in
          match nth_error m middle with
          | Some mp =>
              if plt p (fst mp) then find_loop f m first step p
              else find_loop f m middle (count - step) p
          | None => first
          end
    end.

  Definition find_entry (m : list token) (p : pos) : option token :=
    let first := find_loop (length m) m 0 (length m) p in
    match nth_error m first with
    | Some e => if (Nat.eqb first 0 && plt p (fst e))%bool then None else Some e
    | None => None
    end.
End Lookup.

(** ** Chaining.  A rewrite-map token carries the source position it points to; an original-map
    token carries arbitrary data (source, line, column, name). *)
Section Chain.
  Context {B : Type}.
  Definition chain (m1 : list (@token pos)) (m2 : list (@token B)) : list (@token B) :=
    flat_map (fun t => match lookup m2 (snd t) with
                       | Some o => [(fst t, snd o)]
                       | None => []
                       end) m1.

  (** The two-step resolution the property speaks of. *)
  Definition resolve2 (m1 : list (@token pos)) (m2 : list (@token B)) (p : pos) : option (@token B) :=
    match lookup m1 p with
    | Some t => match lookup m2 (snd t) with
                | Some o => Some (fst t, snd o)
                | None => None
                end
    | None => None
    end.
End Chain.

(** Original-map tokens may carry no source (a one-field segment: "from here on, no original position").
    The lookup finds them like any other token; a rewrite token that resolves to one is dropped. *)
Section ChainOpt.
  Context {B : Type}.
  Definition keep_sourced (m : list (@token (option B))) : list (@token B) :=
    flat_map (fun t => match snd t with Some b => [(fst t, b)] | None => [] end) m.
  Definition chain_opt (m1 : list (@token pos)) (m2 : list (@token (option B))) : list (@token B) :=
    keep_sourced (chain m1 m2).
End ChainOpt.

(** ** Base64 VLQ *)
Definition b64_alphabet : string := "ABCDEFGHIJKLMNOPQRSTUVWXYZabcdefghijklmnopqrstuvwxyz0123456789+/".

Fixpoint index_of (ch : ascii) (s : string) (i : N) : option N :=
  match s with
  | EmptyString => None
  | String c r => if Ascii.eqb c ch then Some i else index_of ch r (N.succ i)
  end.

Definition b64_digit (ch : ascii) : option N := index_of ch b64_alphabet 0%N.
Definition b64_char (d : N) : ascii :=
  match String.get (N.to_nat d) b64_alphabet with Some c => c | None => "A"%char end.

(** Sign folded into bit 0. *)
Definition zigzag (z : Z) : N := if Z.ltb z 0 then N.succ (2 * Z.to_N (- z))%N else (2 * Z.to_N z)%N.
Definition unzigzag (n : N) : Z := if N.odd n then (- Z.of_N (N.div2 n))%Z else Z.of_N (N.div2 n).

(** Little-endian base-32 digits, continuation bit 32 on all but the last. *)
Fixpoint digits (fuel : nat) (n : N) : list N :=
  match fuel with
  | 0 => [(n mod 32)%N]
  | S f => if N.ltb n 32 then [n] else (n mod 32 + 32)%N :: digits f (n / 32)%N
  end.

Definition vlq_digits (z : Z) : list N := let n := zigzag z in digits (N.size_nat n) n.

Fixpoint undigits (ds : list N) : option (N * list N) :=
  match ds with
  | [] => None
  | d :: rest =>
      if N.ltb d 32 then Some (d, rest)
      else match undigits rest with
           | Some (hi, rest') => Some (((d - 32) + 32 * hi)%N, rest')
           | None => None
           end
  end.

Definition vlq_decode_digits (ds : list N) : option (Z * list N) :=
  match undigits ds with Some (n, rest) => Some (unzigzag n, rest) | None => None end.

Definition vlq_encode (z : Z) : string := string_of_list_ascii (map b64_char (vlq_digits z)).

(** Characters to digits, stopping at the first non-base64 character (a separator). *)
Fixpoint b64_prefix (s : string) : list N * string :=
  match s with
  | EmptyString => ([], EmptyString)
  | String c r =>
      match b64_digit c with
      | Some d => let '(ds, rest) := b64_prefix r in (d :: ds, rest)
      | None => ([], s)
      end
  end.

(** One segment: the VLQ values up to the next separator. *)
Fixpoint vlq_all (fuel : nat) (ds : list N) : option (list Z) :=
  match fuel with
  | 0 => None
  | S f =>
      match ds with
      | [] => Some []
      | _ => match vlq_decode_digits ds with
             | Some (z, rest) => match vlq_all f rest with Some zs => Some (z :: zs) | None => None end
             | None => None
             end
      end
  end.

(** Decoded mappings: (generated line, generated column, source index, source line, source column, name index). *)
Record raw_token := { rt_gl : N; rt_gc : Z; rt_src : option (Z * Z * Z); rt_name : option Z }.

Record dstate := { d_line : N; d_col : Z; d_src : Z; d_sl : Z; d_sc : Z; d_name : Z }.

Fixpoint decode_mappings_from (fuel : nat) (s : string) (st : dstate) : option (list raw_token) :=
  match fuel with
  | 0 => None
  | S f =>
      match s with
      | EmptyString => Some []
      | String ";" r => decode_mappings_from f r {| d_line := N.succ (d_line st); d_col := 0%Z; d_src := d_src st;
                                                     d_sl := d_sl st; d_sc := d_sc st; d_name := d_name st |}
      | String "," r => decode_mappings_from f r st
      | _ =>
          let '(ds, rest) := b64_prefix s in
          match vlq_all (S (length ds)) ds with
          | Some [c] =>
              let st' := {| d_line := d_line st; d_col := (d_col st + c)%Z; d_src := d_src st; d_sl := d_sl st;
                            d_sc := d_sc st; d_name := d_name st |} in
              match decode_mappings_from f rest st' with
              | Some ts => Some ({| rt_gl := d_line st'; rt_gc := d_col st'; rt_src := None; rt_name := None |} :: ts)
              | None => None
              end
          | Some [c; si; sl; sc] =>
              let st' := {| d_line := d_line st; d_col := (d_col st + c)%Z; d_src := (d_src st + si)%Z; d_sl := (d_sl st + sl)%Z;
                            d_sc := (d_sc st + sc)%Z; d_name := d_name st |} in
              match decode_mappings_from f rest st' with
              | Some ts => Some ({| rt_gl := d_line st'; rt_gc := d_col st';
                                    rt_src := Some (d_src st', d_sl st', d_sc st'); rt_name := None |} :: ts)
              | None => None
              end
          | Some [c; si; sl; sc; ni] =>
              let st' := {| d_line := d_line st; d_col := (d_col st + c)%Z; d_src := (d_src st + si)%Z; d_sl := (d_sl st + sl)%Z;
                            d_sc := (d_sc st + sc)%Z; d_name := (d_name st + ni)%Z |} in
              match decode_mappings_from f rest st' with
              | Some ts => Some ({| rt_gl := d_line st'; rt_gc := d_col st';
                                    rt_src := Some (d_src st', d_sl st', d_sc st'); rt_name := Some (d_name st') |} :: ts)
              | None => None
              end
          | _ => None
          end
      end
  end.

Definition decode_mappings (s : string) : option (list raw_token) :=
  decode_mappings_from (S (String.length s)) s
    {| d_line := 0%N; d_col := 0%Z; d_src := 0%Z; d_sl := 0%Z; d_sc := 0%Z; d_name := 0%Z |}.
