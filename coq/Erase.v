(** * C02 -- erasing the instrumentation (specification side; knows nothing of the rewriter).

    [erase] undoes, bottom-up and purely syntactically, everything the property text lists:
    - a hook call [_ddiast.h(e, ...)] becomes its first argument [e];
    - an injected sequence [(t0 = e0, ..., tn = en, last)] (all targets carry the reserved prefix)
      becomes [last] with every temporary replaced by the expression assigned to it
      ([t = [...x]] for a spread stands for [x]);
    - [F.call(T, as)] where [F] was assigned [T.m] becomes [T.m(as)];
    - a null guard [(t = b, t == null ? undefined : R)] becomes [R] with the link on [t] marked
      optional again;
    - [{ return e }] arrow bodies with dummy spans become expression bodies;
    - injected [let]s and the file prologue are dropped.
    [lower] is the matching normal form of the INPUT: non-optional links of an optional chain lose
    their (purely structural) wrapper, and [x += y] is read as [x = x + y] when [+] is enabled
    (the rewriter maps both to the same output, so no erasure could tell them apart).
    Comparison is up to source spans ([node_eqb_nospan]). *)
From Coq Require Import String List NArith Bool.
From IastRw Require Import Ast Generated HookSites Directives.
Import ListNotations.
Local Open Scope string_scope.
Local Open Scope list_scope.

(** ** Equality up to spans *)
Definition tag_eqb_nospan (a b : tag) : bool :=
  match a, b with
  | K k1 _ _, K k2 _ _ => kind_eqb k1 k2
  | _, _ => tag_eqb a b
  end.

Fixpoint node_eqb_nospan (a b : node) {struct a} : bool :=
  match a, b with
  | Node ta ca, Node tb cb =>
      tag_eqb_nospan ta tb &&
      (fix go (x y : list node) {struct x} : bool :=
         match x, y with
         | [], [] => true
         | p :: x', q :: y' => node_eqb_nospan p q && go x' y'
         | _, _ => false
         end) ca cb
  end.

(** ** Substitution of temporaries *)
Fixpoint assoc_str {A} (s : string) (env : list (string * A)) : option A :=
  match env with
  | [] => None
  | (k, v) :: rest => if String.eqb s k then Some v else assoc_str s rest
  end.

Definition is_temp_ident (vp : string) (n : node) : option string :=
  match n with
  | Node (K KIdent _ _) _ =>
      match ident_sym n with
      | Some s => if String.prefix vp s then Some s else None
      | None => None
      end
  | _ => None
  end.

Fixpoint subst (vp : string) (env : list (string * node)) (n : node) : node :=
  match is_temp_ident vp n with
  | Some s => match assoc_str s env with Some r => r | None => n end
  | None => match n with Node t cs => Node t (map (subst vp env) cs) end
  end.

(** Number of occurrences of a temporary (linearity checks). *)
Fixpoint occurrences (name : string) (n : node) : nat :=
  match n with
  | Node t cs =>
      (match ident_sym (Node t cs) with
       | Some s => if String.eqb s name then 1 else 0
       | None => 0
       end) +
      (fix go (l : list node) : nat :=
         match l with [] => 0 | c :: l' => occurrences name c + go l' end) cs
  end.

(** [t = [...x]] stands for [x]. *)
Definition clean_rhs (rhs : node) : node :=
  match rhs with
  | Node (K KArray lo hi) [Node Lst [Node Obj [Node Obj _; x]]] =>
      if is_dummy (lo, hi) then x else rhs
  | _ => rhs
  end.

(** Splits [es] into leading assignments to temporaries and the final expression. *)
Fixpoint split_injected (vp : string) (es : list node) : option (list (string * node) * node) :=
  match es with
  | [] => None
  | [last] => Some ([], last)
  | e :: rest =>
      match e with
      | Node (K KAssign _ _) [Node (Str "=") []; lhs; rhs] =>
          match is_temp_ident vp lhs with
          | Some t =>
              match split_injected vp rest with
              | Some (asg, last) => Some ((t, rhs) :: asg, last)
              | None => None
              end
          | None => None
          end
      | _ => None
      end
  end.

(** Environment: each right-hand side already has the earlier temporaries substituted. *)
Fixpoint build_env (vp : string) (asg : list (string * node)) (env : list (string * node))
  : list (string * node) :=
  match asg with
  | [] => env
  | (t, rhs) :: rest => build_env vp rest ((t, clean_rhs (subst vp env rhs)) :: env)
  end.

(** [F.call(T, as)] with [F := T.m]  ==>  [T.m(as)].  [raw] = assignments before substitution. *)
Definition same_receiver (vp : string) (a b : node) : bool :=
  match is_temp_ident vp a, is_temp_ident vp b with
  | Some x, Some y => String.eqb x y
  | None, None => is_lit a && node_eqb a b
  | _, _ => false
  end.

Definition uncall (vp : string) (raw : list (string * node)) (e : node) : node :=
  match e with
  | Node (K KCall lo hi) [cx; Node (K KMember _ _) [f; callprop]; Node Lst (Node Obj [Node Nul []; this] :: rest); targs] =>
      match is_temp_ident vp f, ident_name_sym callprop with
      | Some fname, Some "call" =>
          match assoc_str fname raw with
          | Some (Node (K KMember mlo mhi) [recv; prop]) =>
              if same_receiver vp recv this
              then Node (K KCall lo hi) [cx; Node (K KMember mlo mhi) [this; prop]; Node Lst rest; targs]
              else e
          | _ => e
          end
      | _, _ => e
      end
  | _ => e
  end.

(** A null guard on temporary [t]. *)
Definition guard_parts (vp : string) (e : node) : option (string * node) :=
  match e with
  | Node (K KCond _ _) [Node (K KBin _ _) [Node (Str "==") []; g; Node (K KNullLit _ _) _]; u; alt] =>
      match is_temp_ident vp g, ident_sym u with
      | Some t, Some "undefined" => Some (t, alt)
      | _, _ => None
      end
  | _ => None
  end.

Definition mk_opt (base : node) : node := Node (K KOptChain 0 0) [Node (Bln true) []; base].

Fixpoint is_super_callee (n : node) : bool :=
  match n with
  | Node (K KSuperProp _ _) _ => true
  | Node (K KParen _ _) [e] => is_super_callee e
  | _ => false
  end.

(** Mark as optional again the link that uses the guarded temporary [t]:
    [t.prop], [t(args)], or [t.call(o, args)] where [t := o.prop] or [t := o?.prop]. *)
Fixpoint unguard (vp : string) (raw : list (string * node)) (t : string) (n : node) : node :=
  let is_t x := match is_temp_ident vp x with Some s => String.eqb s t | None => false end in
  match n with
  | Node (K KMember lo hi) [obj; prop] =>
      (* the link whose object is the guarded temporary is the optional one (whatever position it carries: a member
         rebuilt for an instrumented call has the call's position, which is a real one for a non-optional call link) *)
      if is_t obj then mk_opt n
      else Node (K KMember lo hi) [unguard vp raw t obj; unguard vp raw t prop]
  | Node (K KCall lo hi) [cx; callee; Node Lst args; targs] =>
      if is_t callee then mk_opt n
      else
        let generic := Node (K KCall lo hi) [cx; unguard vp raw t callee;
                                             Node Lst (map (unguard vp raw t) args); targs] in
        match callee, args with
        | Node (K KMember _ _) [f; callprop], Node Obj [Node Nul []; this] :: rest =>
            if is_t f && match ident_name_sym callprop with Some "call" => true | _ => false end
            then
              match assoc_str t raw with
              | Some (Node (K KMember mlo mhi) [recv; prop]) =>
                  if same_receiver vp recv this
                  then mk_opt (Node (K KCall lo hi) [cx; Node (K KMember mlo mhi) [this; prop]; Node Lst rest; targs])
                  else generic
              | Some (Node (K KOptChain _ _) [Node (Bln true) []; Node (K KMember mlo mhi) [recv; prop]]) =>
                  (* [t := o?.prop]: the callee was itself an optional member access, [o?.prop?.(args)] *)
                  if same_receiver vp recv this
                  then mk_opt (Node (K KCall lo hi) [cx; mk_opt (Node (K KMember mlo mhi) [this; prop]); Node Lst rest; targs])
                  else generic
              | Some rhs =>
                  (* [t := super.prop], called as [t.call(this, args)]: the input's [super.prop?.(args)] *)
                  if is_super_callee rhs && is_kind KThis this
                  then mk_opt (Node (K KCall lo hi) [cx; f; Node Lst rest; targs])
                  else generic
              | _ => generic
              end
            else generic
        | _, _ => generic
        end
  | Node tg cs => Node tg (map (unguard vp raw t) cs)
  end.

(** The guarded temporary of a [t.call] link is defined by the one before it ([t := o.prop]);
    after un-calling, the use of [t] is gone and only [o] is substituted. *)
Definition collapse_seq (vp : string) (es : list node) : option node :=
  match split_injected vp es with
  | Some (asg, last) =>
      match asg with
      | [] => None
      | _ =>
          let env := build_env vp asg [] in
          match guard_parts vp last with
          | Some (t, alt) => Some (subst vp env (unguard vp asg t alt))
          | None => Some (subst vp env (uncall vp asg last))
          end
      end
  | None => None
  end.

(** ** Post-processing of one node whose children are already erased *)
Definition unarrow (n : node) : node :=
  match n with
  | Node (K KArrow lo hi) [cx; params; Node (K KBlock blo bhi) [_; Node Lst [Node (K KReturn rlo rhi) [e]]]; asy; gen; tp; rt] =>
      if is_dummy (blo, bhi) && is_dummy (rlo, rhi) && negb (match e with Node Nul _ => true | _ => false end)
      then Node (K KArrow lo hi) [cx; params; e; asy; gen; tp; rt]
      else n
  | _ => n
  end.

Definition strip_let (vp : string) (stmts : list node) : list node :=
  directives_of stmts ++
  match after_directives stmts with
  | s :: rest => if is_injected_let vp s then rest else s :: rest
  | [] => []
  end.

Definition post (vp : string) (n : node) : node :=
  match n with
  | Node (K KCall _ _) _ =>
      match hook_call n with
      | Some (_, a0 :: _) => match arg_expr a0 with Some e => e | None => n end
      | _ => n
      end
  | Node (K KParen _ _) [Node (K KSeq _ _) [Node Lst es]] =>
      match collapse_seq vp es with Some e => e | None => n end
  | Node (K KArrow _ _) _ => unarrow n
  | Node (K KBlock lo hi) [cx; Node Lst stmts] => Node (K KBlock lo hi) [cx; Node Lst (strip_let vp stmts)]
  | _ => n
  end.

Fixpoint erase_node (vp : string) (n : node) : node :=
  match n with
  | Node t cs => post vp (Node t (map (erase_node vp) cs))
  end.

(** File level: drop the prologue (exactly the configured statements) after the directives. *)
Definition strip_prologue (prologue : list node) (body : list node) : list node :=
  directives_of body ++
  match prologue with
  | [] => after_directives body
  | _ => match strip_prefix prologue (after_directives body) with
         | Some rest => rest
         | None => after_directives body
         end
  end.

Definition erase (vp : string) (prologue : list node) (modified : bool) (prog : node) : node :=
  match erase_node vp prog with
  | Node (K k lo hi) (Node Lst body :: rest) =>
      Node (K k lo hi) (Node Lst (if modified then strip_prologue prologue body else body) :: rest)
  | other => other
  end.

(** ** Normal form of the input *)
Definition lower_post (plus : bool) (n : node) : node :=
  match n with
  | Node (K KOptChain _ _) [Node (Bln false) []; base] => base
  | Node (K KAssign lo hi) [Node (Str "+=") []; lhs; rhs] =>
      if plus then
        let target_expr := match lhs with
                           | Node (K KIdent l h) [cx; sym; opt; _] => Node (K KIdent l h) [cx; sym; opt]
                           | _ => lhs
                           end in
        Node (K KAssign lo hi) [Node (Str "=") []; lhs;
                                Node (K KBin lo hi) [Node (Str "+") []; target_expr; rhs]]
      else n
  | _ => n
  end.

Fixpoint lower (plus : bool) (n : node) : node :=
  match n with
  | Node t cs => lower_post plus (Node t (map (lower plus) cs))
  end.

(** Does the chain below reach a [?.] link without leaving the chain? *)
Fixpoint spine_has_optional (n : node) : bool :=
  match n with
  | Node (K KOptChain _ _) [Node (Bln true) []; _] => true
  | Node (K KOptChain _ _) [_; base] => spine_has_optional base
  | Node (K KMember _ _) [obj; _] => spine_has_optional obj
  | Node (K KCall _ _) [_; callee; _; _] => spine_has_optional callee
  | _ => false
  end.

(** "Same syntax tree up to parentheses": a parenthesis node carries meaning only around an
    optional chain (it ends the chain's short-circuit scope); all others are dropped before comparing. *)
Fixpoint strip_parens (n : node) : node :=
  match n with
  | Node t cs =>
      let n' := Node t (map strip_parens cs) in
      match n' with
      | Node (K KParen _ _) [e] => if spine_has_optional e then n' else e
      | _ => n'
      end
  end.

(** The validator. [plus] = the [+] operator is enabled in the configuration. *)
Definition erase_ok (vp : string) (prologue : list node) (plus modified : bool) (pin pout : node) : bool :=
  node_eqb_nospan (strip_parens (lower plus (erase vp prologue modified pout))) (strip_parens (lower plus pin)).

(** First difference (for reports): path of child indices. *)
Fixpoint first_diff_nospan (a b : node) {struct a} : option (list nat) :=
  match a, b with
  | Node ta ca, Node tb cb =>
      if negb (tag_eqb_nospan ta tb) then Some []
      else
        (fix go (i : nat) (x y : list node) {struct x} : option (list nat) :=
           match x, y with
           | [], [] => None
           | p :: x', q :: y' =>
               match first_diff_nospan p q with
               | Some path => Some (i :: path)
               | None => go (Datatypes.S i) x' y'
               end
           | _, _ => Some [i]
           end) 0 ca cb
  end.

(** ** The printed content re-parses to the same tree (up to what text cannot carry).
    Spans are ignored by [node_eqb_nospan]; parentheses are a property of the text, not of the tree;
    a literal's [raw] spelling may be re-rendered by the printer. *)
(** CR LF and a lone CR read as LF. *)
Fixpoint norm_eol (s : string) : string :=
  match s with
  | EmptyString => EmptyString
  | String c rest =>
      if Ascii.eqb c (Ascii.ascii_of_nat 13)
      then match rest with
           | String c2 rest2 => if Ascii.eqb c2 (Ascii.ascii_of_nat 10) then String (Ascii.ascii_of_nat 10) (norm_eol rest2) else String (Ascii.ascii_of_nat 10) (norm_eol rest)
           | EmptyString => String (Ascii.ascii_of_nat 10) EmptyString
           end
      else String c (norm_eol rest)
  end.

Definition norm_post (n : node) : node :=
  match n with
  | Node (K KParen _ _) [e] => if spine_has_optional e then n else e   (* only such parentheses carry meaning *)
  | Node (K KOptChain _ _) [Node (Bln false) []; base] => base           (* continuation links are implied by the text *)
  | Node (K KStr lo hi) (v :: _) => Node (K KStr lo hi) [v]
  | Node (K KNum lo hi) (v :: _) => Node (K KNum lo hi) [v]
  | Node (K KBigInt lo hi) (v :: _) => Node (K KBigInt lo hi) [v]
  | Node (K KTplElem lo hi) [tail; cooked; Node (Str raw) []] =>
      (* the raw text of a template: line terminator sequences CR LF and CR are LF (ECMAScript: TRV of a template) *)
      Node (K KTplElem lo hi) [tail; Node (Str (norm_eol raw)) []]
  | Node (K KTplElem lo hi) [tail; cooked; raw] => Node (K KTplElem lo hi) [tail; raw]
  | Node Obj [Node (Num _) []; Node (Num _) []] => Node Obj [nNum "0"; nNum "0"]  (* a span that is not the node's own *)
  | Node Lst cs => Node Lst (filter (fun x => negb (is_kind KEmptyStmt x)) cs)   (* a stray `;` in a statement list *)
  | _ => n
  end.

Fixpoint norm_print (n : node) : node :=
  match n with Node t cs => norm_post (Node t (map norm_print cs)) end.

Definition roundtrip_ok (out reparsed : node) : bool :=
  node_eqb_nospan (norm_print out) (norm_print reparsed).

(** ** "Exactly once": no effectful sub-expression of the input is mentioned more often in the output.
    The eraser substitutes a temporary by what was assigned to it, so an output that evaluates an original
    sub-expression a second time *instead of* reading the temporary erases to the same tree; this count sees it.
    An occurrence is identified by its kind and source span; hook calls, injected nodes (dummy span) and the
    assignments to injected temporaries (which carry the span of the operation) are not occurrences of the input. *)
Definition effect_kind (k : kind) : bool :=
  match k with
  | KCall | KNew | KUpdate | KAssign | KTaggedTpl | KYield | KAwait | KFnExpr | KClassExpr | KArrow => true
  | _ => false
  end.

Definition temp_assign (vp : string) (n : node) : bool :=
  match n with
  | Node (K KAssign _ _) [_; lhs; _] => match is_temp_ident vp lhs with Some _ => true | None => false end
  | _ => false
  end.

Fixpoint effect_spans (vp : string) (n : node) : list (kind * N * N) :=
  match n with
  | Node t cs =>
      (match t with
       | K k lo hi =>
           if effect_kind k && negb (is_dummy (lo, hi)) && negb (is_hook (Node t cs)) && negb (temp_assign vp (Node t cs))
           then [(k, lo, hi)] else []
       | _ => []
       end) ++
      (fix go (l : list node) : list (kind * N * N) :=
         match l with [] => [] | c :: l' => effect_spans vp c ++ go l' end) cs
  end.

Definition key_eqb (a b : kind * N * N) : bool :=
  let '(k1, l1, h1) := a in let '(k2, l2, h2) := b in kind_eqb k1 k2 && N.eqb l1 l2 && N.eqb h1 h2.

Definition count_key (x : kind * N * N) (l : list (kind * N * N)) : nat :=
  length (filter (key_eqb x) l).

(** Occurrences of the input (kind and span) that are mentioned more often in the output than in the input (each reported
    once); a node of the output that corresponds to no occurrence of the input is not a second evaluation of anything. *)
Definition dup_effects (vp : string) (ast_in ast_out : node) : list (N * N) :=
  let i := effect_spans vp ast_in in
  let o := effect_spans vp ast_out in
  (fix go (l : list (kind * N * N)) (seen : list (kind * N * N)) : list (N * N) :=
     match l with
     | [] => []
     | x :: r =>
         if existsb (key_eqb x) seen then go r seen
         else if Nat.ltb 0 (count_key x i) && Nat.ltb (count_key x i) (count_key x o)
              then (snd (fst x), snd x) :: go r (x :: seen)
         else go r (x :: seen)
     end) o [].
