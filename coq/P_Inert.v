(** * C05 -- a configuration that enables nothing alters nothing.
    [inert c]: no [+] operator, no template operator, no configured method.  Then no visit of the
    model ever moves the status, the count or the tags, and [rewrite] reports NotModified. *)
From Coq Require Import String List NArith Bool Lia.
From IastRw Require Import Ast Generated Config Model P_OpVisit.
Import ListNotations.

Definition inert (c : config) : Prop :=
  plus_enabled c = false /\ tpl_enabled c = false /\ forall name, csi_get c name = None.

(** An empty method list is inert. *)
Lemma empty_methods_inert c : c_methods c = [] -> inert c.
Proof.
  intros H. unfold inert, plus_enabled, tpl_enabled, plus_operator, tpl_operator, find_operator, csi_get.
  rewrite H. simpl. repeat split; reflexivity.
Qed.

(** Only operator entries: every method name lookup fails (they never match a call). *)
Lemma csi_get_none_no_methods c :
  forallb (fun m => m_operator m) (c_methods c) = true -> forall name, csi_get c name = None.
Proof.
  unfold csi_get. induction (c_methods c) as [|m ms IH]; simpl; intros H name; [reflexivity|].
  apply andb_true_iff in H. destruct H as [Hm Hms]. rewrite Hm. simpl. apply IH. exact Hms.
Qed.

Section Inert.
  Variable c : config.
  Hypothesis Hc : inert c.

  Lemma replace_with_member_inert recv method mspan call member_opt coa p :
    replace_with_member c recv method mspan call member_opt coa p = (None, p).
  Proof. unfold replace_with_member. destruct Hc as (_ & _ & H). rewrite H. reflexivity. Qed.

  Lemma replace_spread_inert method call member coa p :
    replace_spread_with_member c method call member coa p = (None, p).
  Proof. unfold replace_spread_with_member. destruct Hc as (_ & _ & H). rewrite H. reflexivity. Qed.

  Lemma replace_without_callee_inert callee call p :
    replace_without_callee c callee call p = (None, p).
  Proof.
    unfold replace_without_callee. destruct (ident_sym callee); [|reflexivity].
    destruct Hc as (_ & _ & H). rewrite H. reflexivity.
  Qed.

  Lemma replace_prototype_inert call obj name p :
    replace_prototype c call obj name p = (None, p).
  Proof.
    unfold replace_prototype. destruct (prototype_parts c call obj name);
      [reflexivity | apply replace_spread_inert | apply replace_with_member_inert].
  Qed.

  Lemma call_transform_inert call p : call_transform c call p = (None, p).
  Proof.
    unfold call_transform. destruct (call_parts call) as [[[[cx callee] args] targs]|]; [|reflexivity].
    destruct (member_parts callee) as [[obj prop]|].
    - destruct (ident_name_sym prop) as [name|]; [|reflexivity].
      destruct (is_lit obj).
      + destruct (allows_literal_callers c name); [apply replace_with_member_inert | reflexivity].
      + destruct (receiver_kind_ok obj); [apply replace_with_member_inert|].
        destruct (is_kind KMember obj); [|reflexivity].
        destruct (is_call_or_apply name); [apply replace_prototype_inert|].
        destruct (negb (member_prop_is_prototype obj)); [apply replace_with_member_inert | reflexivity].
    - destruct (is_ident callee); [apply replace_without_callee_inert | reflexivity].
  Qed.

  Lemma call_step_inert n1 s1 : o_t (snd (call_step c n1 s1)) = o_t s1.
  Proof.
    unfold call_step. destruct (callee_is_expr n1); [|reflexivity].
    rewrite call_transform_inert. reflexivity.
  Qed.

  (** No visit moves the telemetry state. *)
  Lemma op_visit_inert : forall fuel root n s n' s',
    op_visit c fuel root n s = Some (n', s') -> o_t s' = o_t s.
  Proof.
    induction fuel as [|f IH]; intros root n s n' s' H; [discriminate|].
    assert (D : forall r x s x' s', default_visit_with (op_visit c f r) x s = Some (x', s') -> o_t s' = o_t s).
    { intros r x s0 x' s0'. apply (default_visit_rel (op_visit c f r) (fun a b => o_t b = o_t a)).
      - reflexivity.
      - intros a b d H1 H2. congruence.
      - intros y sy y' sy'. apply IH. }
    destruct Hc as (Hplus & Htpl & Hget).
    cbn [op_visit] in H. destruct (classify n) eqn:Hcl.
    - inversion H; reflexivity.
    - inversion H; reflexivity.
    - rewrite Hplus in H. eapply D; exact H.
    - rewrite Hplus in H. eapply D; exact H.
    - rewrite Htpl in H. eapply D; exact H.
    - destruct (default_visit_with (op_visit c f false) n s) as [[n1 s1]|] eqn:E; [|discriminate].
      unfold finish in H. inversion H; subst. rewrite o_leave_t, call_step_inert. eapply D; exact E.
    - destruct (optchain_transform c f n (o_p s)) as [[[n1 md] p1]|]; [|discriminate].
      destruct (struct_level_with c (op_visit c f false) n1 (o_with_p p1 s)) as [[n2 s3]|] eqn:E; [|discriminate].
      inversion H; subst. rewrite o_leave_t.
      unfold struct_level_with in E. destruct (classify n1); try (inversion E; reflexivity).
      all: (apply D in E; exact E).
    - destruct (is_op unary_op "delete" n); [inversion H; reflexivity | eapply D; exact H].
    - inversion H; reflexivity.
    - inversion H; reflexivity.
    - eapply D; exact H.
  Qed.
End Inert.

(** ** Block and program level *)
Definition quiet (t : tstate) : Prop :=
  t_count t = 0%N /\ t_tags t = [] /\ t_status t <> Modified.

Lemma quiet_init : quiet t_init.
Proof. unfold quiet, t_init; simpl. repeat split; discriminate. Qed.

Lemma quiet_cancel r t : quiet t -> quiet (t_cancel r t).
Proof. unfold quiet, t_cancel; simpl. intros (A & B & _). repeat split; auto; discriminate. Qed.

Section InertBlocks.
  Variable c : config.
  Hypothesis Hc : inert c.

  Lemma block_visit_inert : forall fuel n t n' t',
    block_visit c fuel n t = Some (n', t') -> quiet t -> quiet t'.
  Proof.
    induction fuel as [|f IH]; intros n t n' t' H Q; [discriminate|].
    assert (CH : forall tg cs t0 r t0',
               match map_st (block_visit c f) cs t0 with
               | Some (cs', t1) => Some (Node tg cs', t1)
               | None => None
               end = Some (r, t0') -> quiet t0 -> quiet t0').
    { intros tg cs t0 r t0' H0 Q0.
      destruct (map_st (block_visit c f) cs t0) as [[cs' t1]|] eqn:E; [|discriminate].
      inversion H0; subst.
      revert Q0. eapply (map_st_rel (block_visit c f) (fun a b => quiet a -> quiet b)); [| | |exact E].
      - auto.
      - auto.
      - intros x _ s x' s'. apply IH. }
    cbn [block_visit] in H.
    destruct n as [tg cs]. destruct tg as [k lo hi| | | | | |]; try (first [eapply CH; eassumption | destruct (leaf _); [inversion H; subst; exact Q | eapply CH; eassumption]]).
    destruct k; try (first [eapply CH; eassumption | destruct (leaf _); [inversion H; subst; exact Q | eapply CH; eassumption]]).
    - (* KBlock *)
      destruct cs as [|cx [|[[| | | | | |] stmts] [|? ?]]]; try (first [eapply CH; eassumption | destruct (leaf _); [inversion H; subst; exact Q | eapply CH; eassumption]]).
      destruct (status_eqb (t_status t) Cancelled); [inversion H; subst; exact Q|].
      destruct (map_st (op_visit c f true) [cx; Node Lst stmts] {| o_p := p_init; o_t := t |})
        as [[l s]|] eqn:E; [|discriminate].
      assert (T : o_t s = t).
      { change t with (o_t {| o_p := p_init; o_t := t |}).
        eapply (map_st_rel (op_visit c f true) (fun a b => o_t b = o_t a)); [| | |exact E].
        - reflexivity.
        - intros a b d H1 H2; congruence.
        - intros x _ sx x' sx'. apply op_visit_inert. exact Hc. }
      destruct l as [|cx' [|[[| | | | | |] stmts'] [|? ?]]]; try discriminate.
      rewrite <- T in Q.
      destruct (p_dup (o_p s)).
      + inversion H. apply quiet_cancel. exact Q.
      + eapply CH; eassumption.
    - (* KArrow *)
      destruct (status_eqb (t_status t) Cancelled).
      + eapply CH; eassumption.
      + unfold arrow_transform in H.
        destruct cs as [|cx [|params [|body [|asy [|gen [|tp [|rt [|? ?]]]]]]]]; try (first [eapply CH; eassumption | destruct (leaf _); [inversion H; subst; exact Q | eapply CH; eassumption]]).
        destruct (is_kind KBlock body); eapply CH; eassumption.
    - (* KIdent *)
      destruct (ident_sym (Node (K KIdent lo hi) cs)); [|inversion H; subst; exact Q].
      match type of H with (if ?b then _ else _) = _ => destruct b end;
        inversion H; subst; [apply quiet_cancel|]; exact Q.
  Qed.

  (** With a configuration that enables nothing every accepted input is reported not modified,
      nothing is counted and no tag is recorded. *)
  Theorem rewrite_inert file prog ast t :
    rewrite c file prog = OutOk ast t ->
    t_status t = NotModified /\ t_count t = 0%N /\ t_tags t = [].
  Proof.
    unfold rewrite, program_visit. destruct prog as [tg cs].
    destruct tg as [k lo hi| | | | | |]; try discriminate.
    destruct (map_st (block_visit c (default_fuel (Node (K k lo hi) cs))) cs t_init) as [[cs' t1]|] eqn:E;
      [|discriminate].
    assert (Q : quiet t1).
    { generalize quiet_init.
      eapply (map_st_rel (block_visit c _) (fun a b => quiet a -> quiet b)); [| | |exact E]; auto.
      intros x _ s x' s'. apply block_visit_inert. }
    destruct Q as (Q1 & Q2 & Q3).
    destruct (status_eqb (t_status t1) Modified) eqn:Em.
    { destruct (t_status t1); simpl in Em; try discriminate. contradiction Q3; reflexivity. }
    destruct (t_status t1) eqn:Es.
    - contradiction Q3; reflexivity.
    - intros H; inversion H; subst. auto.
    - discriminate.
  Qed.
End InertBlocks.
