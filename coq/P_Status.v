(** * C12 / C15 -- the status of a file and its count move together.
    Every change of the telemetry state goes through [update_status] (or the cancellation); hence any
    relation on telemetry states that those two steps respect is respected by the whole rewrite --
    optional chains included, no hypothesis on the input tree.  Instance: with telemetry on,
    NotModified files have count 0 and Modified files have count >= 1. *)
From Coq Require Import String List NArith Bool Lia.
From IastRw Require Import Ast Generated Config Model HookSites WfTree P_OpVisit P_Telemetry P_Program
                           P_Count P_CountGlobal P_CountProgram.
Import ListNotations.

Section TRel.
  Variable c : config.
  Variable R : tstate -> tstate -> Prop.
  Hypothesis R_refl : forall t, R t t.
  Hypothesis R_trans : forall a b d, R a b -> R b d -> R a d.
  Hypothesis R_step : forall st tag t, st = Modified \/ st = NotModified -> R t (update_status (c_verbosity c) st tag t).
  Hypothesis R_cancel : forall r t, R t (t_cancel r t).

  Let Ro (a b : ostate) : Prop := R (o_t a) (o_t b).

  Lemma Ro_update st tag s s0 : st = Modified \/ st = NotModified -> Ro s0 s -> Ro s0 (o_update c st tag s).
  Proof. unfold Ro, o_update. cbn [o_t]. intros Hs H. eapply R_trans; [exact H | apply R_step; exact Hs]. Qed.

  Lemma bin_step_R n s s0 : Ro s0 s -> Ro s0 (snd (bin_step c n s)).
  Proof.
    intros H. unfold bin_step. destruct (is_op bin_op "+" n); [|exact H].
    destruct (binary_transform c n (o_p s)) as [[e|] p2]; cbn [snd]; (apply Ro_update; [auto | exact H]).
  Qed.

  Lemma assign_step_R n s s0 : Ro s0 s -> Ro s0 (snd (assign_step c n s)).
  Proof.
    intros H. unfold assign_step. destruct (is_op assign_op "+=" n); [|exact H].
    destruct (assign_transform c n (o_p s)) as [[e|] p2]; cbn [snd]; (apply Ro_update; [auto | exact H]).
  Qed.

  Lemma tpl_step_R n s s0 : Ro s0 s -> Ro s0 (snd (tpl_step c n s)).
  Proof.
    intros H. unfold tpl_step.
    destruct (template_transform c n (o_p s)) as [[e|] p2]; cbn [snd]; (apply Ro_update; [auto | exact H]).
  Qed.

  Lemma call_step_R n s s0 : Ro s0 s -> Ro s0 (snd (call_step c n s)).
  Proof.
    intros H. unfold call_step. destruct (callee_is_expr n); [|exact H].
    destruct (call_transform c n (o_p s)) as [[[e tag]|] p2]; cbn [snd]; [apply Ro_update; [auto | exact H] | exact H].
  Qed.

  Theorem op_visit_trel : forall fuel root n s n' s',
    op_visit c fuel root n s = Some (n', s') -> R (o_t s) (o_t s').
  Proof.
    induction fuel as [|f IH]; intros root n s n' s' H; [discriminate|].
    assert (D : forall r x s x' s', default_visit_with (op_visit c f r) x s = Some (x', s') -> Ro s s').
    { intros r x s0 x' s0'. apply (default_visit_rel (op_visit c f r) Ro).
      - intros a; apply R_refl.
      - intros a b d; apply R_trans.
      - intros y sy y' sy'. apply IH. }
    cbn [op_visit] in H. destruct (classify n) eqn:Hcl.
    - inversion H; subst; apply R_refl.
    - inversion H; subst; apply R_refl.
    - destruct (plus_enabled c); [|eapply D; exact H].
      destruct (default_visit_with (op_visit c f false) n s) as [[n1 s1]|] eqn:E; [|discriminate].
      unfold finish in H. inversion H; subst. rewrite o_leave_t. apply bin_step_R. eapply D; exact E.
    - destruct (plus_enabled c); [|eapply D; exact H].
      destruct (default_visit_with (op_visit c f false) n s) as [[n1 s1]|] eqn:E; [|discriminate].
      unfold finish in H. inversion H; subst. rewrite o_leave_t. apply assign_step_R. eapply D; exact E.
    - destruct (tpl_enabled c); [|eapply D; exact H].
      destruct (tpl_instrumentable n); [|inversion H; subst; apply R_refl].
      destruct (default_visit_with (op_visit c f false) n s) as [[n1 s1]|] eqn:E; [|discriminate].
      unfold finish in H. inversion H; subst. rewrite o_leave_t. apply tpl_step_R. eapply D; exact E.
    - destruct (default_visit_with (op_visit c f false) n s) as [[n1 s1]|] eqn:E; [|discriminate].
      unfold finish in H. inversion H; subst. rewrite o_leave_t. apply call_step_R. eapply D; exact E.
    - destruct (optchain_transform c f n (o_p s)) as [[[n1 md] p1]|]; [|discriminate].
      destruct (struct_level_with c (op_visit c f false) n1 (o_with_p p1 s)) as [[n2 s3]|] eqn:E; [|discriminate].
      inversion H; subst. rewrite o_leave_t.
      change (o_t s) with (o_t (o_with_p p1 s)).
      unfold struct_level_with in E. destruct (classify n1); try (inversion E; subst; apply R_refl).
      all: (apply D in E; exact E).
    - destruct (is_op unary_op "delete" n); [inversion H; subst; apply R_refl | eapply D; exact H].
    - inversion H; subst; apply R_refl.
    - inversion H; subst; apply R_refl.
    - eapply D; exact H.
  Qed.

  Theorem block_visit_trel : forall fuel n t n' t',
    block_visit c fuel n t = Some (n', t') -> R t t'.
  Proof.
    induction fuel as [|f IH]; intros n t n' t' H; [discriminate|].
    assert (CH : forall tg cs t0 r t0',
               match map_st (block_visit c f) cs t0 with
               | Some (cs', t1) => Some (Node tg cs', t1)
               | None => None
               end = Some (r, t0') -> R t0 t0').
    { intros tg cs t0 r t0' H0.
      destruct (map_st (block_visit c f) cs t0) as [[cs' t1]|] eqn:E; [|discriminate].
      inversion H0; subst.
      eapply (map_st_rel (block_visit c f) R); [exact R_refl | exact R_trans | | exact E].
      intros x _ s x' s'. apply IH. }
    cbn [block_visit] in H.
    destruct n as [tg cs].
    destruct tg as [k lo hi| | | | | |];
      try (first [eapply CH; eassumption | destruct (leaf _); [inversion H; subst; apply R_refl | eapply CH; eassumption]]).
    destruct k;
      try (first [eapply CH; eassumption | destruct (leaf _); [inversion H; subst; apply R_refl | eapply CH; eassumption]]).
    - (* KBlock *)
      destruct cs as [|cx [|[[| | | | | |] stmts] [|? ?]]];
        try (first [eapply CH; eassumption | destruct (leaf _); [inversion H; subst; apply R_refl | eapply CH; eassumption]]).
      destruct (status_eqb (t_status t) Cancelled); [inversion H; subst; apply R_refl|].
      destruct (map_st (op_visit c f true) [cx; Node Lst stmts] {| o_p := p_init; o_t := t |})
        as [[l s]|] eqn:E; [|discriminate].
      assert (T : R t (o_t s)).
      { change t with (o_t {| o_p := p_init; o_t := t |}).
        eapply (map_st_rel (op_visit c f true) Ro); [| | |exact E].
        - intros a; apply R_refl.
        - intros a b d; apply R_trans.
        - intros x _ sx x' sx'. apply op_visit_trel. }
      destruct l as [|cx' [|[[| | | | | |] stmts'] [|? ?]]]; try discriminate.
      destruct (p_dup (o_p s)).
      + inversion H; subst. eapply R_trans; [exact T | apply R_cancel].
      + eapply R_trans; [exact T | eapply CH; eassumption].
    - (* KArrow *)
      destruct (status_eqb (t_status t) Cancelled); [eapply CH; eassumption|].
      unfold arrow_transform in H.
      destruct cs as [|cx [|params [|body [|asy [|gen [|tp [|rt [|? ?]]]]]]]]; try (eapply CH; eassumption).
      destruct (is_kind KBlock body); eapply CH; eassumption.
    - (* KIdent *)
      destruct (ident_sym (Node (K KIdent lo hi) cs)); [|inversion H; subst; apply R_refl].
      match type of H with (if ?b then _ else _) = _ => destruct b end;
        inversion H; subst; [apply R_cancel | apply R_refl].
  Qed.

  Theorem program_visit_trel fuel prog ast t :
    program_visit c fuel prog = Some (ast, t) -> R t_init t.
  Proof.
    unfold program_visit. destruct prog as [[k lo hi| | | | | |] cs]; try discriminate.
    destruct (map_st (block_visit c fuel) cs t_init) as [[cs' t1]|] eqn:E; [|discriminate].
    assert (Q : R t_init t1).
    { eapply (map_st_rel (block_visit c fuel) R); [exact R_refl | exact R_trans | | exact E].
      intros x _ s x' s'. apply block_visit_trel. }
    destruct (status_eqb (t_status t1) Modified).
    - destruct k; try (intros H; inversion H; subst; exact Q);
        destruct cs' as [|[[| | | | | |] body] [|interp [|? ?]]]; intros H; inversion H; subst; exact Q.
    - intros H; inversion H; subst; exact Q.
  Qed.
End TRel.

(** ** Instance: status and count agree *)
Definition status_count_ok (t : tstate) : Prop :=
  (t_status t = NotModified -> t_count t = 0%N) /\ (t_status t = Modified -> (1 <= t_count t)%N).

Lemma status_count_init : status_count_ok t_init.
Proof. split; [reflexivity | discriminate]. Qed.

Lemma status_count_step v st tag t : v <> VOff -> (st = Modified \/ st = NotModified) ->
  status_count_ok t -> status_count_ok (update_status v st tag t).
Proof.
  intros Hv Hst I. destruct (status_eqb (t_status t) Cancelled) eqn:Ec.
  - unfold update_status. rewrite Ec. exact I.
  - assert (L : t_status t <> Cancelled) by (intros X; rewrite X in Ec; discriminate Ec).
    destruct Hst as [-> | ->].
    + pose proof (update_status_modified v tag t L) as U. cbv zeta in U. destruct U as (U1 & U2 & _).
      split; [rewrite U1; discriminate|]. intros _. rewrite U2.
      destruct v; try (contradiction Hv; reflexivity); lia.
    + rewrite update_status_not_modified. exact I.
Qed.

Lemma status_count_cancel r t : status_count_ok (t_cancel r t).
Proof. unfold status_count_ok, t_cancel; cbn [t_status]. split; discriminate. Qed.

Theorem rewrite_status_count c file prog ast t : c_verbosity c <> VOff ->
  rewrite c file prog = OutOk ast t -> status_count_ok t.
Proof.
  intros Hv. unfold rewrite.
  destruct (program_visit c (default_fuel prog) prog) as [[ast0 t0]|] eqn:E; [|discriminate].
  assert (Q : status_count_ok t0).
  { apply (program_visit_trel c (fun a b => status_count_ok a -> status_count_ok b)) with (fuel := default_fuel prog) (prog := prog) (ast := ast0).
    - auto.
    - auto.
    - intros st tag t1 Hst I. apply status_count_step; assumption.
    - intros r t1 _. apply status_count_cancel.
    - exact E.
    - exact status_count_init. }
  destruct (t_status t0) eqn:St; try discriminate; intros H; inversion H; subst; exact Q.
Qed.

(** A file is reported NotModified exactly when the tree handed to the printer contains no reference
    to the hook namespace (fragment of the counting theorem, telemetry on). *)
Theorem rewrite_notmodified_iff_no_reference c file k lo hi body interp ast t : c_verbosity c <> VOff ->
  (k = KScript \/ k = KModule) ->
  good (Node (K k lo hi) [Node Lst body; interp]) ->
  rewrite c file (Node (K k lo hi) [Node Lst body; interp]) = OutOk ast t ->
  (t_status t = NotModified <-> ns_count ast = 0) /\ (t_status t = Modified \/ t_status t = NotModified).
Proof.
  intros Hv Hk G H.
  pose proof (rewrite_status_count c file _ ast t Hv H) as [I0 I1].
  pose proof (rewrite_count c file k lo hi body interp ast t Hv Hk G H) as CNT.
  assert (ST : t_status t = Modified \/ t_status t = NotModified).
  { unfold rewrite in H. destruct (program_visit c _ _) as [[ast0 t0]|]; [|discriminate].
    destruct (t_status t0) eqn:St; try discriminate; inversion H; subst; rewrite St; auto. }
  split; [|exact ST]. destruct ST as [M | NM].
  - rewrite M in *. cbn [status_eqb] in CNT. specialize (I1 eq_refl). split; [discriminate|]. intros Z. rewrite Z in CNT. lia.
  - rewrite NM in *. cbn [status_eqb] in CNT. rewrite (I0 eq_refl) in CNT. split; [intros _; lia | reflexivity].
Qed.
