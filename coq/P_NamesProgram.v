(** * C05 at program level: in the tree handed to the printer, every member expression on the hook namespace
    that does not come from the configured prologue carries a configured replacement name.
    Same induction over the block visitor as P_CountProgram.v, with the measure of P_Names.v. *)
From Coq Require Import String List NArith Bool Lia.
From IastRw Require Import Ast Generated Config ToConfig Model HookSites WfTree P_OpVisit P_Kinds P_Telemetry P_Config P_Hooks
     P_Program P_Count P_CountGlobal P_CountProgram P_Names.
Import ListNotations.

Section BlockNames.
  Variable c : config.
  Variable ok : string -> bool.
  Hypothesis Hp : plus_enabled c = true -> ok (plus_name c) = true.
  Hypothesis Ht : tpl_enabled c = true -> ok (tpl_name c) = true.
  Hypothesis Hc : forall name m, csi_get c name = Some m -> ok (m_dst m) = true.
  Local Notation bn := (badname ok).
  Local Notation bnl := (badname_list ok).

  (** Identifiers and leaves come back unchanged from the block visitor. *)
  Lemma block_visit_fix fuel n t n' t' :
    block_visit c fuel n t = Some (n', t') -> is_ident n || leaf n = true -> n' = n.
  Proof.
    intros H L. destruct fuel as [|f]; [discriminate|]. cbn [block_visit] in H.
    destruct n as [[k lo hi| | | | | |] cs];
      try (rewrite orb_false_l in L; rewrite L in H; inversion H; reflexivity).
    destruct k; try (discriminate L);
      try (rewrite orb_false_l in L; rewrite L in H; inversion H; reflexivity).
    (* identifier *)
    destruct (ident_sym (Node (K KIdent lo hi) cs)); [|inversion H; reflexivity].
    match type of H with (if ?b then _ else _) = _ => destruct b end; inversion H; reflexivity.
  Qed.

  Lemma bn_plain t cs : plain (Node t cs) = true -> is_ns_member (Node t cs) = false -> bn (Node t cs) = bnl cs.
  Proof.
    intros P M. unfold plain in P. apply andb_true_iff in P. destruct P as [P1 P2].
    apply negb_true_iff in P1. apply negb_true_iff in P2.
    unfold badname. cbn [meas]. rewrite P1, P2. unfold stop_names. rewrite M.
    destruct (stop_kind (Node t cs)); reflexivity.
  Qed.

  Lemma bn_member t cs : is_ns_member (Node t cs) = true -> bn (Node t cs) = name_weight ok (Node t cs).
  Proof.
    intros M. destruct t as [k lo hi| | | | | |]; try discriminate M. destruct k; try discriminate M.
    unfold badname. cbn [meas].
    change (is_ident (Node (K KMember lo hi) cs)) with false. change (leaf (Node (K KMember lo hi) cs)) with false. cbv iota.
    assert (SK : stop_kind (Node (K KMember lo hi) cs) = true) by (unfold stop_kind; rewrite M; apply orb_true_r).
    rewrite SK. unfold stop_names. rewrite M. reflexivity.
  Qed.

  (** Lists of visited children. *)
  Lemma map_st_bn_rel (f : node -> tstate -> option (node * tstate)) : forall l,
    (forall x, In x l -> forall t x' t', f x t = Some (x', t') -> bad x = 0 -> bn x' = bn x) ->
    forall t l' t', map_st f l t = Some (l', t') -> bad_list l = 0 -> bnl l' = bnl l.
  Proof.
    induction l as [|x r IH]; intros Hf t l' t' H Z; simpl in H.
    - inversion H; subst. reflexivity.
    - destruct (f x t) as [[x1 t1]|] eqn:E; [|discriminate].
      destruct (map_st f r t1) as [[r1 t2]|] eqn:E2; [|discriminate].
      inversion H; subst. apply meas_list_zero_inv in Z. inversion Z as [|? ? Zx Zr]; subst.
      pose proof (Hf x (or_introl eq_refl) _ _ _ E Zx) as A.
      pose proof (IH (fun y Hy => Hf y (or_intror Hy)) _ _ _ E2 (meas_list_zero _ _ _ Zr)) as B.
      unfold badname_list, badname in *. cbn [meas_list fold_right].
      fold (meas_list (stop_names ok) 0 r1). fold (meas_list (stop_names ok) 0 r). rewrite A, B. reflexivity.
  Qed.

  (** The weight of a member on the namespace does not change when its children are visited. *)
  Lemma ident_name_sym_tag p p' : tag_of p' = tag_of p -> leaf p = false -> ident_name_sym p' = None /\ ident_name_sym p = None.
  Proof.
    intros T L. destruct p as [tp pcs], p' as [tp' pcs']. cbn [tag_of] in T. subst tp'.
    destruct tp as [k lo hi| | | | | |]; try (split; reflexivity).
    destruct k; try (split; reflexivity). discriminate L.
  Qed.

  Lemma children_member_stable f tg cs cs' t0 t1 :
    map_st (block_visit c f) cs t0 = Some (cs', t1) ->
    is_ns_member (Node tg cs') = is_ns_member (Node tg cs) /\
    (is_ns_member (Node tg cs) = true -> name_weight ok (Node tg cs') = name_weight ok (Node tg cs)).
  Proof.
    intros M.
    assert (F : Forall2 (fun x x' => tag_of x' = tag_of x /\ (is_ident x || leaf x = true -> x' = x)) cs cs').
    { eapply map_st_forall2; [|exact M]. intros x _ tx x' tx' E. split; [eapply block_visit_tag; exact E | eapply block_visit_fix; exact E]. }
    destruct tg as [k lo hi| | | | | |]; try (split; [reflexivity | discriminate]).
    destruct k; try (split; [reflexivity | discriminate]).
    inversion F as [|obj obj' r r' [TO FO] F2]; subst; [split; [reflexivity | discriminate]|].
    cbn [is_ns_member].
    assert (EQ : is_ns_ident obj' = is_ns_ident obj).
    { destruct (is_ident obj) eqn:I.
      - rewrite (FO eq_refl). reflexivity.
      - (* neither is an identifier *)
        destruct obj as [to ocs], obj' as [to' ocs']. cbn [tag_of] in TO. subst to'.
        destruct to as [k2 l2 h2| | | | | |]; try reflexivity. destruct k2; try reflexivity. discriminate I. }
    split; [exact EQ|]. intros NS.
    assert (obj' = obj) as ->.
    { apply FO. rewrite EQ in NS || idtac. destruct (is_ident obj) eqn:I; [reflexivity|].
      exfalso. destruct obj as [[k2 l2 h2| | | | | |] ocs]; try discriminate NS. destruct k2; try discriminate NS. discriminate I. }
    inversion F2 as [|prop prop' r2 r2' [TP FP] F3]; subst; [reflexivity|].
    inversion F3; subst; [|reflexivity].
    cbn [name_weight]. destruct (leaf prop) eqn:Lp.
    - rewrite (FP (orb_true_r _)). reflexivity.
    - destruct (ident_name_sym_tag prop prop' TP Lp) as [-> ->]. reflexivity.
  Qed.

  (** ** The block visitor adds no member with a name that is not acceptable *)
  Theorem block_visit_names : forall fuel n t n' t',
    block_visit c fuel n t = Some (n', t') -> bad n = 0 -> bn n' = bn n.
  Proof.
    induction fuel as [|f IH]; intros n t n' t' H Z; [discriminate|].
    assert (CH : forall tg cs t0 r t0',
               match map_st (block_visit c f) cs t0 with
               | Some (cs', t1) => Some (Node tg cs', t1)
               | None => None
               end = Some (r, t0') ->
               plain (Node tg cs) = true -> bad_list cs = 0 -> bn r = bn (Node tg cs)).
    { intros tg cs t0 r t0' H0 P Z0.
      destruct (map_st (block_visit c f) cs t0) as [[cs' t1]|] eqn:E; [|discriminate].
      inversion H0; subst.
      assert (P' : plain (Node tg cs') = true).
      { unfold plain in *. destruct tg as [k lo hi| | | | | |]; exact P. }
      destruct (children_member_stable _ tg _ _ _ _ E) as [SM SW].
      destruct (is_ns_member (Node tg cs)) eqn:M.
      - rewrite (bn_member _ _ M), (bn_member tg cs') by (rewrite SM; reflexivity). apply SW. reflexivity.
      - rewrite (bn_plain _ _ P M), (bn_plain _ _ P') by (rewrite SM; reflexivity).
        eapply map_st_bn_rel; [|exact E|exact Z0].
        intros x _ tx x' tx' Ex Zx. exact (IH _ _ _ _ Ex Zx). }
    assert (GEN : forall tg cs,
               (if leaf (Node tg cs) then Some (Node tg cs, t)
                else match map_st (block_visit c f) cs t with
                     | Some (cs', t1) => Some (Node tg cs', t1)
                     | None => None
                     end) = Some (n', t') ->
               is_ident (Node tg cs) = false -> stop_kind (Node tg cs) = false ->
               bad (Node tg cs) = 0 -> bn n' = bn (Node tg cs)).
    { intros tg cs H0 I S Z0. destruct (leaf (Node tg cs)) eqn:Lf.
      - inversion H0; subst. reflexivity.
      - pose proof (plain_of _ I Lf) as P. rewrite (bad_plain _ _ P S) in Z0. exact (CH _ _ _ _ _ H0 P Z0). }
    cbn [block_visit] in H.
    destruct n as [tg cs]. destruct tg as [k lo hi| | | | | |]; try (apply GEN; [exact H | reflexivity | reflexivity | exact Z]).
    destruct k; try (apply GEN; [exact H | reflexivity | reflexivity | exact Z]).
    - (* block statement *)
      pose proof (bad_block _ _ _ Z) as G.
      assert (ZN : bn (Node (K KBlock lo hi) cs) = 0) by (apply badname_good; exact G).
      assert (OTHER : (if leaf (Node (K KBlock lo hi) cs) then Some (Node (K KBlock lo hi) cs, t)
                       else match map_st (block_visit c f) cs t with
                            | Some (cs', t1) => Some (Node (K KBlock lo hi) cs', t1)
                            | None => None
                            end) = Some (n', t') -> bn n' = bn (Node (K KBlock lo hi) cs)).
      { intros H0. change (leaf (Node (K KBlock lo hi) cs)) with false in H0. cbv iota in H0.
        eapply CH; [exact H0 | reflexivity | exact (good_bad_list (K KBlock lo hi) cs eq_refl G)]. }
      destruct cs as [|cx [|[[| | | | | |] stmts] [|? ?]]]; try (apply OTHER; exact H).
      destruct (status_eqb (t_status t) Cancelled) eqn:Ec; [inversion H; subst; reflexivity|].
      destruct (map_st (op_visit c f true) [cx; Node Lst stmts] {| o_p := p_init; o_t := t |})
        as [[l s]|] eqn:E; [|discriminate].
      destruct l as [|cx' [|[[| | | | | |] stmts'] [|? ?]]]; try discriminate.
      assert (L0 : live {| o_p := p_init; o_t := t |}).
      { unfold live. cbn [o_t]. intros X. rewrite X in Ec. discriminate Ec. }
      pose proof (good_children (K KBlock lo hi) [cx; Node Lst stmts] eq_refl G) as GC.
      (* nested blocks stay clean input; every name built on the namespace is acceptable *)
      destruct (map_st_count stop_bad 0 (op_visit c f true) [cx; Node Lst stmts]
                  (fun x _ sx x' sx' Ex Gx Lx => op_visit_count stop_bad 0 bad_good bad_arrow
                       (fun _ => True) (fun name span _ => eq_refl) c (or_introl eq_refl) (fun _ => I) (fun _ => I) (fun _ _ _ => I) _ _ _ _ _ _ Ex Gx Lx)
                  _ _ _ E GC L0) as [A2 _].
      destruct (map_st_count (stop_names ok) 0 (op_visit c f true) [cx; Node Lst stmts]
                  (fun x _ sx x' sx' Ex Gx Lx => op_visit_count (stop_names ok) 0 (badname_good ok) (badname_arrow ok)
                       (fun name => ok name = true) (badname_callee ok) c (or_introl eq_refl) Hp Ht Hc _ _ _ _ _ _ Ex Gx Lx)
                  _ _ _ E GC L0) as [A3 _].
      change (N.of_nat 0) with 0%N in A2, A3. rewrite !N.mul_0_l in A2, A3.
      pose proof (map_st_temp _ _ _ _ _ _ _ E all_temp_init) as AT.
      destruct (p_dup (o_p s)).
      + inversion H; subst. rewrite ZN. rewrite bn_plain by reflexivity. unfold badname_list. lia.
      + set (stmts'' := insert_let (p_idents (o_p s)) (lo, hi) stmts') in *.
        assert (B1 : bad_list [cx'; Node Lst stmts''] = 0).
        { cbn [meas_list fold_right]. cbn [meas_list fold_right] in A2.
          rewrite (ns_node Lst) by reflexivity. rewrite (ns_node Lst) in A2 by reflexivity.
          unfold stmts''. rewrite meas_insert_let by exact AT. lia. }
        assert (N1 : bnl [cx'; Node Lst stmts''] = 0).
        { unfold badname_list. cbn [meas_list fold_right]. cbn [meas_list fold_right] in A3.
          rewrite (ns_node Lst) by reflexivity. rewrite (ns_node Lst) in A3 by reflexivity.
          unfold stmts''. rewrite meas_insert_let by exact AT. lia. }
        rewrite ZN. rewrite (CH _ _ _ _ _ H eq_refl B1). rewrite bn_plain by reflexivity. exact N1.
    - (* member expression *)
      change (leaf (Node (K KMember lo hi) cs)) with false in H. cbv iota in H.
      rewrite bad_member in Z. exact (CH _ _ _ _ _ H eq_refl Z).
    - (* arrow function outside every block *)
      destruct (bad_arrow_node _ _ _ Z) as [[AB ZL] | G].
      + assert (AT : arrow_transform (Node (K KArrow lo hi) cs) = Node (K KArrow lo hi) cs).
        { unfold arrow_transform. unfold arrow_body_is_block in AB.
          destruct cs as [|cx [|params [|body [|asy [|gen [|tp [|rt [|? ?]]]]]]]]; try reflexivity.
          rewrite AB. reflexivity. }
        rewrite AT in H. destruct (status_eqb (t_status t) Cancelled); (eapply CH; [exact H | reflexivity | exact ZL]).
      + destruct (status_eqb (t_status t) Cancelled).
        * (eapply CH; [exact H | reflexivity | exact (good_bad_list (K KArrow lo hi) _ eq_refl G)]).
        * pose proof (bad_arrow _ G) as BA. pose proof (badname_arrow ok _ G) as NA. pose proof (badname_good ok _ G) as NG.
          unfold arrow_transform in *.
          destruct cs as [|cx [|params [|body [|asy [|gen [|tp [|rt [|? ?]]]]]]]];
            try (eapply CH; [exact H | reflexivity | exact (good_bad_list (K KArrow lo hi) _ eq_refl G)]).
          destruct (is_kind KBlock body) eqn:B; [(eapply CH; [exact H | reflexivity | exact (good_bad_list (K KArrow lo hi) _ eq_refl G)])|].
          destruct (bad_arrow_node _ _ _ BA) as [[_ ZL] | G2].
          -- rewrite NG, <- NA. eapply CH; [exact H | reflexivity | exact ZL].
          -- rewrite NG, <- NA. eapply CH; [exact H | reflexivity | exact (good_bad_list (K KArrow lo hi) _ eq_refl G2)].
    - (* identifier *)
      destruct (ident_sym (Node (K KIdent lo hi) cs)); [|inversion H; subst; reflexivity].
      match type of H with (if ?b then _ else _) = _ => destruct b end; inversion H; subst; reflexivity.
  Qed.
End BlockNames.

(** ** The program and the rewriter's result *)
Theorem program_visit_names c ok :
  (plus_enabled c = true -> ok (plus_name c) = true) ->
  (tpl_enabled c = true -> ok (tpl_name c) = true) ->
  (forall name m, csi_get c name = Some m -> ok (m_dst m) = true) ->
  forall fuel k lo hi body interp ast t,
    (k = KScript \/ k = KModule) ->
    good (Node (K k lo hi) [Node Lst body; interp]) ->
    program_visit c fuel (Node (K k lo hi) [Node Lst body; interp]) = Some (ast, t) ->
    badname ok ast = if status_eqb (t_status t) Modified then badname_list ok (c_prefix_stmts c) else 0.
Proof.
  intros Hp Ht Hc fuel k lo hi body interp ast t Hk G H.
  destruct (program_visit_shape _ _ _ _ _ _ _ _ _ Hk H) as (body' & interp' & M & ->).
  assert (P : plain (Node (K k lo hi) [Node Lst body; interp]) = true) by (destruct Hk as [-> | ->]; reflexivity).
  pose proof (map_st_bn_rel ok (block_visit c fuel) [Node Lst body; interp]
                (fun x _ tx x' tx' Ex Zx => block_visit_names c ok Hp Ht Hc _ _ _ _ _ Ex Zx) _ _ _ M
                (good_bad_list _ _ P G)) as A.
  assert (Z0 : badname_list ok [Node Lst body; interp] = 0).
  { pose proof (badname_good ok _ G) as Z. rewrite bn_plain in Z; [exact Z | exact P | destruct Hk as [-> | ->]; reflexivity]. }
  rewrite Z0 in A.
  assert (P' : forall b, plain (Node (K k lo hi) [Node Lst b; interp']) = true) by (intros b; destruct Hk as [-> | ->]; reflexivity).
  rewrite bn_plain; [|apply P'|destruct Hk as [-> | ->]; reflexivity].
  unfold badname_list in *. cbn [meas_list fold_right] in *.
  rewrite !(ns_node Lst) in * by reflexivity.
  destruct (status_eqb (t_status t) Modified).
  - unfold insert_prologue. rewrite meas_list_insert_at. lia.
  - lia.
Qed.

Theorem rewrite_names c ok file k lo hi body interp ast t :
  (plus_enabled c = true -> ok (plus_name c) = true) ->
  (tpl_enabled c = true -> ok (tpl_name c) = true) ->
  (forall name m, csi_get c name = Some m -> ok (m_dst m) = true) ->
  (k = KScript \/ k = KModule) ->
  good (Node (K k lo hi) [Node Lst body; interp]) ->
  rewrite c file (Node (K k lo hi) [Node Lst body; interp]) = OutOk ast t ->
  badname ok ast = if status_eqb (t_status t) Modified then badname_list ok (c_prefix_stmts c) else 0.
Proof.
  intros Hp Ht Hc Hk G. unfold rewrite.
  destruct (program_visit c _ _) as [[ast0 t0]|] eqn:E; [|discriminate].
  destruct (t_status t0) eqn:St; try discriminate; intros H; inversion H; subst;
    eapply program_visit_names; eauto.
Qed.

(** Readable form for the configuration's own names: when the configured prologue itself dereferences the
    namespace with configured names only (the real one does not dereference it at all), every member expression
    on the hook namespace in the tree handed to the printer is [_ddiast.<name>] with a configured [name]. *)
Theorem rewrite_only_configured c file k lo hi body interp ast t :
  (k = KScript \/ k = KModule) ->
  good (Node (K k lo hi) [Node Lst body; interp]) ->
  badname_list (configured c) (c_prefix_stmts c) = 0 ->
  rewrite c file (Node (K k lo hi) [Node Lst body; interp]) = OutOk ast t ->
  Forall (fun m => exists mlo mhi obj prop name,
            m = Node (K KMember mlo mhi) [obj; prop] /\ ident_name_sym prop = Some name /\
            In name (configured_dsts c)) (ns_members ast).
Proof.
  intros Hk G PZ H.
  assert (Z : badname (configured c) ast = 0).
  { rewrite (rewrite_names c (configured c) file k lo hi body interp ast t); [destruct (status_eqb _ _); [exact PZ | reflexivity] | | | | exact Hk | exact G | exact H].
    - intros E. apply configured_in. apply plus_name_configured. exact E.
    - intros E. apply configured_in. apply tpl_name_configured. exact E.
    - intros name m E. apply configured_in. apply (csi_get_configured c name m E). }
  pose proof (badname_zero_members _ _ Z) as F.
  eapply Forall_impl; [|exact F]. intros m Hm.
  destruct (name_weight_zero _ _ Hm) as (mlo & mhi & obj & prop & name & E1 & E2 & E3).
  exists mlo, mhi, obj, prop, name. repeat split; try assumption. apply configured_inv. exact E3.
Qed.
