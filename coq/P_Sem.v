(** * Soundness of the binary rewriter in the core semantics (C01). *)
From Coq Require Import List String Arith Lia Bool.
From IastRw Require Import Sem.
Import ListNotations.
Set Implicit Arguments.

Section Proofs.
Variable respond : hist -> event -> resp.
Variable ustore  : hist -> string -> value.
Notation eval := (eval respond ustore).

Definition frame (lo hi : nat) (t t' : tenv) : Prop := forall n, n < lo \/ hi <= n -> t' n = t n.
Lemma frame_refl lo hi t : frame lo hi t t. Proof. firstorder. Qed.
Lemma upd_same t n v : upd t n v n = v. Proof. unfold upd; rewrite Nat.eqb_refl; auto. Qed.
Lemma upd_other t n m v : m <> n -> upd t n v m = t m.
Proof. unfold upd; intros; destruct (Nat.eqb_spec m n); congruence. Qed.

Lemma fire_tenv ev (h : hist) : exists o h', forall t : tenv, fire respond ev (h, t) = (o, (h', t)).
Proof.
  unfold fire. destruct (respond h ev) as [v|v]; [exists (Ret v) | exists (Thr v)]; exists (h ++ [ev]); reflexivity.
Qed.

Lemma do_add_tenv a b (h : hist) : exists o h', forall t : tenv, do_add respond a b (h, t) = (o, (h', t)).
Proof.
  unfold do_add. destruct (pure_add a b) as [v|]; [exists (Ret v), h; reflexivity | apply fire_tenv].
Qed.

Lemma do_str_tenv v (h : hist) : exists o h', forall t : tenv, do_str respond v (h, t) = (o, (h', t)).
Proof. destruct v; simpl; try apply fire_tenv. exists (Ret (VStr s)), h; reflexivity. Qed.

Lemma tpl1_tail_tenv q0 v q1 (h : hist) :
  exists o h', forall t : tenv, tpl1_tail respond q0 v q1 (h, t) = (o, (h', t)).
Proof.
  unfold tpl1_tail. destruct (do_str_tenv v h) as (o & h1 & E).
  destruct o as [r|r]; eexists; eexists; intros t; rewrite E; reflexivity.
Qed.

Lemma tpl2_tail_tenv q0 v1 q1 v2 q2 (h : hist) :
  exists o h', forall t : tenv, tpl2_tail respond q0 v1 q1 v2 q2 (h, t) = (o, (h', t)).
Proof.
  unfold tpl2_tail. destruct (do_str_tenv v1 h) as (o & h1 & E).
  destruct o as [r|r]; [|eexists; eexists; intros t; rewrite E; reflexivity].
  destruct (do_str_tenv v2 h1) as (o2 & h2 & E2).
  destruct o2 as [r2|r2]; eexists; eexists; intros t; rewrite E; cbn [bind]; rewrite E2; reflexivity.
Qed.

(* source expressions neither read nor write temporaries: same outcome/history under any temp store *)
Lemma src_tenv e : src e -> forall (h : hist) (t : tenv), exists o h', forall t2 : tenv, eval e (h, t2) = (o, (h', t2)).
Proof.
  induction e; simpl; try tauto; intros Hs h t.
  - destruct v; try tauto. eauto.
  - eauto.
  - destruct Hs as [Hl Hr].
    destruct (IHe1 Hl h t) as (o1 & h1 & E1).
    destruct o1 as [a|a]; [|exists (Thr a), h1; intros; rewrite E1; reflexivity].
    destruct (IHe2 Hr h1 t) as (o2 & h2 & E2).
    destruct o2 as [b|b]; [|exists (Thr b), h2; intros; rewrite E1; simpl; rewrite E2; reflexivity].
    unfold do_add. destruct (pure_add a b) as [v|] eqn:PA.
    + exists (Ret v), h2. intros; rewrite E1; simpl; rewrite E2; simpl. unfold do_add. rewrite PA. reflexivity.
    + destruct (respond h2 (EvAdd a b)) eqn:R;
      [exists (Ret v)|exists (Thr v)]; exists (h2 ++ [EvAdd a b]); intros; rewrite E1; simpl; rewrite E2; simpl;
        unfold do_add, fire; rewrite PA, R; reflexivity.
  - destruct Hs as [Hl Hr].
    destruct (IHe1 Hl h t) as (o1 & h1 & E1).
    destruct o1 as [a|a]; [|exists (Thr a), h1; intros; rewrite E1; reflexivity].
    destruct (IHe2 Hr h1 t) as (o2 & h2 & E2).
    destruct o2 as [b|b]; [|exists (Thr b), h2; intros; rewrite E1; simpl; rewrite E2; reflexivity].
    destruct (respond h2 (EvCall a [b])) eqn:R;
    [exists (Ret v)|exists (Thr v)]; exists (h2 ++ [EvCall a [b]]); intros; rewrite E1; simpl; rewrite E2; simpl; unfold fire; rewrite R; reflexivity.
  - (* x += e *)
    destruct (IHe Hs h t) as (o2 & h2 & E2).
    destruct o2 as [v2|v2]; [|exists (Thr v2), h2; intros; rewrite E2; reflexivity].
    destruct (do_add_tenv (ustore h x) v2 h2) as (o3 & h3 & E3).
    destruct o3 as [r|r]; [|exists (Thr r), h3; intros; rewrite E2; cbn [bind fst]; rewrite E3; reflexivity].
    destruct (fire_tenv (EvWrite x r) h3) as (o4 & h4 & E4).
    destruct o4 as [w|w]; [exists (Ret r) | exists (Thr w)]; exists h4; intros; rewrite E2; cbn [bind fst]; rewrite E3;
      cbn [bind]; rewrite E4; reflexivity.
  - (* o.k += e *)
    destruct Hs as [Hl Hr].
    destruct (IHe1 Hl h t) as (o1 & h1 & E1).
    destruct o1 as [vo|vo]; [|exists (Thr vo), h1; intros; rewrite E1; reflexivity].
    destruct (fire_tenv (EvGet vo k) h1) as (og & hg & EG).
    destruct og as [v1|v1]; [|exists (Thr v1), hg; intros; rewrite E1; cbn [bind]; rewrite EG; reflexivity].
    destruct (IHe2 Hr hg t) as (o2 & h2 & E2).
    destruct o2 as [v2|v2]; [|exists (Thr v2), h2; intros; rewrite E1; cbn [bind]; rewrite EG; cbn [bind]; rewrite E2; reflexivity].
    destruct (do_add_tenv v1 v2 h2) as (o3 & h3 & E3).
    destruct o3 as [r|r]; [|exists (Thr r), h3; intros; rewrite E1; cbn [bind]; rewrite EG; cbn [bind]; rewrite E2; cbn [bind]; rewrite E3; reflexivity].
    destruct (fire_tenv (EvSet vo k r) h3) as (o4 & h4 & E4).
    destruct o4 as [w|w]; [exists (Ret r) | exists (Thr w)]; exists h4; intros; rewrite E1; cbn [bind]; rewrite EG; cbn [bind];
      rewrite E2; cbn [bind]; rewrite E3; cbn [bind]; rewrite E4; reflexivity.
  - (* method call without argument *)
    destruct (IHe Hs h t) as (o1 & h1 & E1).
    destruct o1 as [vo|vo]; [|exists (Thr vo), h1; intros; rewrite E1; reflexivity].
    destruct (respond h1 (EvGet vo m)) as [vf|vf] eqn:RG.
    2:{ exists (Thr vf), (h1 ++ [EvGet vo m]). intros. rewrite E1. simpl. unfold fire. rewrite RG. reflexivity. }
    destruct (respond (h1 ++ [EvGet vo m]) (EvCallT vf vo [])) eqn:R;
      [exists (Ret v)|exists (Thr v)]; exists ((h1 ++ [EvGet vo m]) ++ [EvCallT vf vo []]); intros; rewrite E1; simpl;
      unfold fire; rewrite RG; simpl; rewrite R; reflexivity.
  - (* method call *)
    destruct Hs as [Hl Hr].
    destruct (IHe1 Hl h t) as (o1 & h1 & E1).
    destruct o1 as [vo|vo]; [|exists (Thr vo), h1; intros; rewrite E1; reflexivity].
    destruct (respond h1 (EvGet vo m)) as [vf|vf] eqn:RG.
    2:{ exists (Thr vf), (h1 ++ [EvGet vo m]). intros. rewrite E1. simpl. unfold fire. rewrite RG. reflexivity. }
    destruct (IHe2 Hr (h1 ++ [EvGet vo m]) t) as (o2 & h2 & E2).
    destruct o2 as [va|va].
    2:{ exists (Thr va), h2. intros. rewrite E1. simpl. unfold fire. rewrite RG. simpl. rewrite E2. reflexivity. }
    destruct (respond h2 (EvCallT vf vo [va])) eqn:R;
      [exists (Ret v)|exists (Thr v)]; exists (h2 ++ [EvCallT vf vo [va]]); intros; rewrite E1; simpl;
      unfold fire; rewrite RG; simpl; rewrite E2; simpl; rewrite R; reflexivity.
  - (* property read *)
    destruct (IHe Hs h t) as (o1 & h1 & E1).
    destruct o1 as [vo|vo]; [|exists (Thr vo), h1; intros; rewrite E1; reflexivity].
    destruct (fire_tenv (EvGet vo m) h1) as (o2 & h2 & E2).
    exists o2, h2. intros. rewrite E1. cbn [bind]. apply E2.
  - (* template, one substitution *)
    destruct (IHe Hs h t) as (o1 & h1 & E1).
    destruct o1 as [v|v]; [|exists (Thr v), h1; intros; rewrite E1; reflexivity].
    destruct (tpl1_tail_tenv q0 v q1 h1) as (o2 & h2 & E2).
    exists o2, h2. intros. rewrite E1. cbn [bind]. apply E2.
  - (* template, two substitutions *)
    destruct Hs as [Hl Hr].
    destruct (IHe1 Hl h t) as (o1 & h1 & E1).
    destruct o1 as [a|a]; [|exists (Thr a), h1; intros; rewrite E1; reflexivity].
    destruct (IHe2 Hr h1 t) as (o2 & h2 & E2).
    destruct o2 as [b|b]; [|exists (Thr b), h2; intros; rewrite E1; cbn [bind]; rewrite E2; reflexivity].
    destruct (tpl2_tail_tenv q0 a q1 b q2 h2) as (o3 & h3 & E3).
    exists o3, h3. intros. rewrite E1. cbn [bind]. rewrite E2. cbn [bind]. apply E3.
  - (* optional method call without argument *)
    destruct (IHe Hs h t) as (o1 & h1 & E1).
    destruct o1 as [vo|vo]; [|exists (Thr vo), h1; intros; rewrite E1; reflexivity].
    destruct (nullish vo) eqn:NV; [exists (Ret VUndef), h1; intros; rewrite E1; cbn [bind]; rewrite NV; reflexivity|].
    destruct (respond h1 (EvGet vo m)) as [vf|vf] eqn:RG.
    2:{ exists (Thr vf), (h1 ++ [EvGet vo m]). intros. rewrite E1. cbn [bind]. rewrite NV. unfold fire. rewrite RG. reflexivity. }
    destruct (respond (h1 ++ [EvGet vo m]) (EvCallT vf vo [])) eqn:R;
      [exists (Ret v)|exists (Thr v)]; exists ((h1 ++ [EvGet vo m]) ++ [EvCallT vf vo []]); intros; rewrite E1; cbn [bind]; rewrite NV;
      unfold fire; rewrite RG; cbn [bind]; rewrite R; reflexivity.
  - (* optional method call *)
    destruct Hs as [Hl Hr].
    destruct (IHe1 Hl h t) as (o1 & h1 & E1).
    destruct o1 as [vo|vo]; [|exists (Thr vo), h1; intros; rewrite E1; reflexivity].
    destruct (nullish vo) eqn:NV; [exists (Ret VUndef), h1; intros; rewrite E1; cbn [bind]; rewrite NV; reflexivity|].
    destruct (respond h1 (EvGet vo m)) as [vf|vf] eqn:RG.
    2:{ exists (Thr vf), (h1 ++ [EvGet vo m]). intros. rewrite E1. cbn [bind]. rewrite NV. unfold fire. rewrite RG. reflexivity. }
    destruct (IHe2 Hr (h1 ++ [EvGet vo m]) t) as (o2 & h2 & E2).
    destruct o2 as [va|va].
    2:{ exists (Thr va), h2. intros. rewrite E1. cbn [bind]. rewrite NV. unfold fire. rewrite RG. cbn [bind]. rewrite E2. reflexivity. }
    destruct (respond h2 (EvCallT vf vo [va])) eqn:R;
      [exists (Ret v)|exists (Thr v)]; exists (h2 ++ [EvCallT vf vo [va]]); intros; rewrite E1; cbn [bind]; rewrite NV;
      unfold fire; rewrite RG; cbn [bind]; rewrite E2; cbn [bind]; rewrite R; reflexivity.
  - (* o[k] += e *)
    destruct Hs as (Ho & Hk & He).
    destruct (IHe1 Ho h t) as (o1 & h1 & E1).
    destruct o1 as [vo|vo]; [|exists (Thr vo), h1; intros; rewrite E1; reflexivity].
    destruct (IHe2 Hk h1 t) as (o2 & h2 & E2).
    destruct o2 as [vk|vk]; [|exists (Thr vk), h2; intros; rewrite E1; cbn [bind]; rewrite E2; reflexivity].
    destruct (fire_tenv (EvGetV vo vk) h2) as (o3 & h3 & E3).
    destruct o3 as [v1|v1];
      [|exists (Thr v1), h3; intros; rewrite E1; cbn [bind]; rewrite E2; cbn [bind]; rewrite E3; reflexivity].
    destruct (IHe3 He h3 t) as (o4 & h4 & E4).
    destruct o4 as [v2|v2];
      [|exists (Thr v2), h4; intros; rewrite E1; cbn [bind]; rewrite E2; cbn [bind]; rewrite E3; cbn [bind]; rewrite E4; reflexivity].
    destruct (do_add_tenv v1 v2 h4) as (o5 & h5 & E5).
    destruct o5 as [r|r];
      [|exists (Thr r), h5; intros; rewrite E1; cbn [bind]; rewrite E2; cbn [bind]; rewrite E3; cbn [bind]; rewrite E4; cbn [bind];
        rewrite E5; reflexivity].
    destruct (fire_tenv (EvSetV vo vk r) h5) as (o6 & h6 & E6).
    destruct o6 as [w|w]; [exists (Ret r)|exists (Thr w)]; exists h6; intros; rewrite E1; cbn [bind]; rewrite E2; cbn [bind];
      rewrite E3; cbn [bind]; rewrite E4; cbn [bind]; rewrite E5; cbn [bind]; rewrite E6; reflexivity.
  - (* o[k] *)
    destruct Hs as (Ho & Hk).
    destruct (IHe1 Ho h t) as (o1 & h1 & E1).
    destruct o1 as [vo|vo]; [|exists (Thr vo), h1; intros; rewrite E1; reflexivity].
    destruct (IHe2 Hk h1 t) as (o2 & h2 & E2).
    destruct o2 as [vk|vk]; [|exists (Thr vk), h2; intros; rewrite E1; cbn [bind]; rewrite E2; reflexivity].
    destruct (fire_tenv (EvGetV vo vk) h2) as (o3 & h3 & E3).
    exists o3, h3. intros. rewrite E1. cbn [bind]. rewrite E2. cbn [bind]. apply E3.
Qed.

(** ** Operands that stay in place *)
(** A sum of string literals: evaluates to a constant without any interaction. *)
Fixpoint litsum (e : expr) : Prop :=
  match e with
  | Lit (VStr _) => True
  | Add l r => litsum l /\ litsum r
  | _ => False
  end.

Lemma litsum_eval e : litsum e -> exists s, forall (h : hist) (t : tenv), eval e (h, t) = (Ret (VStr s), (h, t)).
Proof.
  induction e; simpl; try tauto.
  - destruct v; try tauto. eauto.
  - intros [Hl Hr]. destruct (IHe1 Hl) as (s1 & E1). destruct (IHe2 Hr) as (s2 & E2).
    exists (s1 ++ s2)%string. intros h t. rewrite E1. simpl. rewrite E2. simpl. reflexivity.
Qed.

(** Pure expressions: a value, no interaction, no write, in every state. *)
Definition pure_expr (e : expr) : Prop := forall s : st, exists v, eval e s = (Ret v, s).

Lemma pure_lit v : pure_expr (Lit v). Proof. intros s; simpl; eauto. Qed.
Lemma pure_var x : pure_expr (Var x). Proof. intros s; simpl; eauto. Qed.
Lemma pure_tmp n : pure_expr (Tmp n). Proof. intros s; simpl; eauto. Qed.
Lemma pure_litsum e : litsum e -> pure_expr e.
Proof. intros L [h t]. destruct (litsum_eval e L) as (s & E). rewrite E. eauto. Qed.

Definition inplace (e : expr) : Prop := is_triv e = true \/ litsum e.

Lemma pure_inplace e : inplace e -> pure_expr e.
Proof.
  intros [T | L]; [|apply pure_litsum; exact L].
  destruct e; simpl in T; try discriminate; [apply pure_lit | apply pure_var].
Qed.

(** Constant operands: the same value in every state. *)
Definition const_expr (e : expr) : Prop := exists v, forall s : st, eval e s = (Ret v, s).

Lemma eval_hoist1 n e b (s : st) :
  eval (Hoist1 n e b) s = bind (eval e s) (fun v s1 => eval b (fst s1, upd (snd s1) n v)).
Proof. reflexivity. Qed.

Lemma eval_add l r (s : st) :
  eval (Add l r) s = bind (eval l s) (fun a s1 => bind (eval r s1) (fun b s2 => do_add respond a b s2)).
Proof. reflexivity. Qed.

Lemma eval_tmp n (s : st) : eval (Tmp n) s = (Ret (snd s n), s).
Proof. reflexivity. Qed.

Lemma eval_lit v (s : st) : eval (Lit v) s = (Ret v, s).
Proof. reflexivity. Qed.

Lemma eval_mcall1 o m a (s : st) :
  eval (MCall1 o m a) s =
  bind (eval o s) (fun vo s1 => bind (fire respond (EvGet vo m) s1) (fun vf s2 =>
  bind (eval a s2) (fun va s3 => fire respond (EvCallT vf vo [va]) s3))).
Proof. reflexivity. Qed.

Lemma eval_mcall0 o m (s : st) :
  eval (MCall0 o m) s =
  bind (eval o s) (fun vo s1 => bind (fire respond (EvGet vo m) s1) (fun vf s2 => fire respond (EvCallT vf vo []) s2)).
Proof. reflexivity. Qed.

Lemma eval_callt0 f this (s : st) :
  eval (CallT0 f this) s =
  bind (eval f s) (fun vf s1 => bind (eval this s1) (fun vt s2 => fire respond (EvCallT vf vt []) s2)).
Proof. reflexivity. Qed.

Lemma eval_callt1 f this a (s : st) :
  eval (CallT1 f this a) s =
  bind (eval f s) (fun vf s1 => bind (eval this s1) (fun vt s2 =>
  bind (eval a s2) (fun va s3 => fire respond (EvCallT vf vt [va]) s3))).
Proof. reflexivity. Qed.

Lemma eval_get o m (s : st) : eval (Get o m) s = bind (eval o s) (fun vo s1 => fire respond (EvGet vo m) s1).
Proof. reflexivity. Qed.

Lemma eval_hoist2 n1 e1 n2 e2 b (s : st) :
  eval (Hoist2 n1 e1 n2 e2 b) s =
  bind (eval e1 s) (fun v1 s1 => bind (eval e2 (fst s1, upd (snd s1) n1 v1)) (fun v2 s2 =>
  eval b (fst s2, upd (snd s2) n2 v2))).
Proof. reflexivity. Qed.

Lemma eval_hoist3 n1 e1 n2 e2 n3 e3 b (s : st) :
  eval (Hoist3 n1 e1 n2 e2 n3 e3 b) s =
  bind (eval e1 s) (fun v1 s1 => bind (eval e2 (fst s1, upd (snd s1) n1 v1)) (fun v2 s2 =>
  bind (eval e3 (fst s2, upd (snd s2) n2 v2)) (fun v3 s3 => eval b (fst s3, upd (snd s3) n3 v3)))).
Proof. reflexivity. Qed.

Lemma eval_optm0 o m (s : st) :
  eval (OptMCall0 o m) s =
  bind (eval o s) (fun vo s1 => if nullish vo then (Ret VUndef, s1)
        else bind (fire respond (EvGet vo m) s1) (fun vf s2 => fire respond (EvCallT vf vo []) s2)).
Proof. reflexivity. Qed.

Lemma eval_optm1 o m a (s : st) :
  eval (OptMCall1 o m a) s =
  bind (eval o s) (fun vo s1 => if nullish vo then (Ret VUndef, s1)
        else bind (fire respond (EvGet vo m) s1) (fun vf s2 =>
             bind (eval a s2) (fun va s3 => fire respond (EvCallT vf vo [va]) s3))).
Proof. reflexivity. Qed.

Lemma eval_guard n e b (s : st) :
  eval (Guard n e b) s =
  bind (eval e s) (fun v s1 => if nullish v then (Ret VUndef, (fst s1, upd (snd s1) n v)) else eval b (fst s1, upd (snd s1) n v)).
Proof. reflexivity. Qed.

Lemma eval_tpl1 q0 e q1 (s : st) :
  eval (Tpl1 q0 e q1) s = bind (eval e s) (fun v s1 => tpl1_tail respond q0 v q1 s1).
Proof. reflexivity. Qed.

Lemma eval_tpl2 q0 e1 q1 e2 q2 (s : st) :
  eval (Tpl2 q0 e1 q1 e2 q2) s =
  bind (eval e1 s) (fun v1 s1 => bind (eval e2 s1) (fun v2 s2 => tpl2_tail respond q0 v1 q1 v2 q2 s2)).
Proof. reflexivity. Qed.

Lemma fire_ret ev (h : hist) (t : tenv) v : respond h ev = RRet v -> fire respond ev (h, t) = (Ret v, ((h ++ [ev] : hist), t)).
Proof. intros R. unfold fire. rewrite R. reflexivity. Qed.
Lemma fire_thr ev (h : hist) (t : tenv) v : respond h ev = RThr v -> fire respond ev (h, t) = (Thr v, ((h ++ [ev] : hist), t)).
Proof. intros R. unfold fire. rewrite R. reflexivity. Qed.

Lemma hook_pure first args (s : st) :
  Forall pure_expr args -> eval (Hook first args) s = eval first s.
Proof.
  intros F. simpl. destruct (eval first s) as [[v|v] s1]; simpl; [|reflexivity].
  revert s1. induction F as [|a r Pa _ IH]; intros s1; [reflexivity|].
  destruct (Pa s1) as (w & Ea). rewrite Ea. simpl. apply IH.
Qed.

Variable instr : string -> bool.
Variable lit_ok : string -> bool.
(** Bare calls of methods "allowed without callee" are outside the theorem: their rewriting reads the callee identifier
    after the argument has been evaluated, which an adversarial world tells apart (Properties/C01.v, C01_bare_call_refuted). *)
Variable awc : string -> bool.
Hypothesis no_awc : forall f, awc f = false.
(** ... and so are configurations without the plus operator: a sum then stays where it is, also as an operand of an
    instrumented template or method call, and runs after the operands that were captured (C01_plus_off_refuted). *)
Variable plus_on : bool.
Hypothesis plus_true : plus_on = true.
Notation rw := (rw instr lit_ok awc plus_on).

Lemma rw_add_eq l r c :
  rw (Add l r) c = let '(l', c1) := rw l c in let '(r', c2) := rw r c1 in rw_add l' r' c2.
Proof. cbn [Sem.rw]. rewrite plus_true. reflexivity. Qed.

Lemma rw_addasgc_eq o k e c :
  rw (AddAsgC o k e) c =
  let '(o', c1) := rw o c in let '(k', c2) := rw k c1 in let '(e', c3) := rw e c2 in rw_addasg_c o' k' e' c3.
Proof. cbn [Sem.rw]. rewrite plus_true. reflexivity. Qed.

Lemma rw_addasgv_eq x e c : rw (AddAsgV x e) c = let '(e', c1) := rw e c in rw_addasg_v x e' c1.
Proof. cbn [Sem.rw]. rewrite plus_true. reflexivity. Qed.

Lemma rw_addasgm_eq o k e c :
  rw (AddAsgM o k e) c = let '(o', c1) := rw o c in let '(e', c2) := rw e c1 in rw_addasg_m o' k e' c2.
Proof. cbn [Sem.rw]. rewrite plus_true. reflexivity. Qed.

Lemma rw_calle_eq f a c :
  rw (CallE f a) c = let '(f', c1) := rw f c in let '(a', c2) := rw a c1 in (CallE f' a', c2).
Proof.
  cbn [Sem.rw]. destruct (rw f c) as [f' c1]. destruct (rw a c1) as [a' c2].
  destruct f'; try reflexivity. rewrite no_awc. reflexivity.
Qed.

Lemma rw_optm0_eq o m c :
  rw (OptMCall0 o m) c =
  if instr m && negb (is_lit o)
  then let '(o', c1) := rw o (S c) in let '(body, c2) := rw_mcall0 (Tmp c) m c1 in (Guard c o' body, c2)
  else let '(o', c1) := rw o c in (OptMCall0 o' m, c1).
Proof. reflexivity. Qed.

Lemma rw_optm1_eq o m a c :
  rw (OptMCall1 o m a) c =
  if instr m && negb (is_lit o)
  then let '(o', c1) := rw o (S c) in let '(a', c2) := rw a c1 in
       let '(body, c3) := rw_mcall (Tmp c) m a' c2 in (Guard c o' body, c3)
  else let '(o', c1) := rw o c in let '(a', c2) := rw a c1 in (OptMCall1 o' m a', c2).
Proof. reflexivity. Qed.

Lemma rw_tpl1_eq q0 e q1 c :
  rw (Tpl1 q0 e q1) c = if is_lit e then (Tpl1 q0 e q1, c) else let '(e', c1) := rw e c in rw_tpl1 q0 e' q1 c1.
Proof. reflexivity. Qed.

Lemma rw_tpl2_eq q0 e1 q1 e2 q2 c :
  rw (Tpl2 q0 e1 q1 e2 q2) c =
  if is_lit e1 || is_lit e2 then (Tpl2 q0 e1 q1 e2 q2, c)
  else let '(e1', c1) := rw e1 c in let '(e2', c2) := rw e2 c1 in rw_tpl2 q0 e1' q1 e2' q2 c2.
Proof. reflexivity. Qed.

(** The two possible results of rewriting a sum whose operands have been rewritten. *)
Definition lit_or_sum (x : expr) : Prop := is_lit x = true \/ exists a b, x = Add a b.

Lemma left_stay l' r' : left_act l' r' = Stay -> exists a b, l' = Add a b.
Proof. destruct l'; simpl; try discriminate; eauto. destruct (is_triv r'); discriminate. Qed.
Lemma right_stay l' r' : right_act l' r' = Stay -> exists a b, r' = Add a b.
Proof. destruct r'; simpl; try discriminate; eauto. destruct l'; discriminate. Qed.

Lemma rw_add_cases l' r' c2 :
  (rw_add l' r' c2 = (Add l' r', c2) /\ lit_or_sum l' /\ lit_or_sum r') \/
  (is_triv (fst (rw_add l' r' c2)) = false /\ forall a b, fst (rw_add l' r' c2) <> Add a b).
Proof.
  unfold rw_add, lit_or_sum.
  destruct (left_act l' r') eqn:LA; destruct (right_act l' r') eqn:RA; cbn [app forallb fst snd wrap].
  - destruct (is_lit l') eqn:L1; destruct (is_lit r') eqn:L2; cbn [andb fst snd];
      [left; auto | right; split; [reflexivity | discriminate] ..].
  - destruct (is_lit l') eqn:L1; cbn [andb fst snd];
      [left; split; [reflexivity | split; [auto | right; apply (right_stay _ _ RA)]] | right; split; [reflexivity | discriminate]].
  - rewrite Bool.andb_false_r. right; split; [reflexivity | discriminate].
  - destruct (is_lit r') eqn:L2; cbn [andb fst snd];
      [left; split; [reflexivity | split; [right; apply (left_stay _ _ LA) | auto]] | right; split; [reflexivity | discriminate]].
  - left. split; [reflexivity | split; right; [apply (left_stay _ _ LA) | apply (right_stay _ _ RA)]].
  - right; split; [reflexivity | discriminate].
  - right; split; [reflexivity | discriminate].
  - right; split; [reflexivity | discriminate].
  - right; split; [reflexivity | discriminate].
Qed.

(** An operand that comes back from [rw] as a literal, an identifier or a [+] was not touched, and is
    pure. *)
Lemma rw_inplace_src : forall e c, src e ->
  (is_triv (fst (rw e c)) = true \/ exists a b, fst (rw e c) = Add a b) ->
  rw e c = (e, c) /\ inplace e.
Proof.
  induction e; intros c Hs Hk; simpl in Hs; try tauto.
  - simpl. split; [reflexivity | left; reflexivity].
  - simpl. split; [reflexivity | left; reflexivity].
  - (* Add *)
    destruct Hs as [Hl Hr]. rewrite rw_add_eq in Hk. rewrite rw_add_eq.
    pose proof (IHe1 c Hl) as I1. destruct (rw e1 c) as [l' c1] eqn:R1. simpl in I1.
    pose proof (IHe2 c1 Hr) as I2. destruct (rw e2 c1) as [r' c2] eqn:R2. simpl in I2.
    destruct (rw_add_cases l' r' c2) as [(EQ & KL & KR) | (NT & NA)].
    + assert (KL' : is_triv l' = true \/ exists a b, l' = Add a b).
      { destruct KL as [KL | KL]; [left; destruct l'; simpl in *; try discriminate; reflexivity | right; exact KL]. }
      assert (KR' : is_triv r' = true \/ exists a b, r' = Add a b).
      { destruct KR as [KR | KR]; [left; destruct r'; simpl in *; try discriminate; reflexivity | right; exact KR]. }
      destruct (I1 KL') as [E1 P1]. destruct (I2 KR') as [E2 P2]. inversion E1; inversion E2; subst.
      split; [exact EQ|]. right. simpl. split.
      * destruct KL as [KL | (a & b & ->)].
        -- destruct e1; simpl in KL; try discriminate. simpl in Hl. destruct v; tauto.
        -- destruct P1 as [P1 | P1]; [discriminate P1 | exact P1].
      * destruct KR as [KR | (a & b & ->)].
        -- destruct e2; simpl in KR; try discriminate. simpl in Hr. destruct v; tauto.
        -- destruct P2 as [P2 | P2]; [discriminate P2 | exact P2].
    + destruct Hk as [Hk | (a & b & Hk)]; [congruence | exfalso; eapply NA; exact Hk].
  - (* CallE *)
    rewrite rw_calle_eq in Hk. destruct (rw e1 c) as [f' c1]. destruct (rw e2 c1) as [a' c2]. simpl in Hk.
    destruct Hk as [Hk | (a & b & Hk)]; discriminate.
  - (* Par *)
    simpl in Hk. destruct (rw e c) as [x' c1]. simpl in Hk.
    destruct Hk as [Hk | (a & b & Hk)]; discriminate.
  - (* x += e : the result is an assignment *)
    rewrite rw_addasgv_eq in Hk. destruct (rw e c) as [e' c1]. unfold rw_addasg_v in Hk.
    destruct (rw_add (Var x) (group_sum e') c1) as [sum c2]. simpl in Hk.
    destruct Hk as [Hk | (a & b & Hk)]; discriminate.
  - (* o.k += e *)
    rewrite rw_addasgm_eq in Hk. destruct (rw e1 c) as [o' c1]. destruct (rw e2 c1) as [e' c2]. unfold rw_addasg_m in Hk.
    destruct (is_triv o'); destruct (rw_add _ (group_sum e') _) as [sum c4]; simpl in Hk;
      destruct Hk as [Hk | (a & b & Hk)]; discriminate.
  - (* method call without argument *)
    simpl in Hk. destruct (rw e c) as [o' c1].
    destruct (instr m && (negb (is_lit o') || lit_ok m) && recv_ok o').
    + unfold rw_mcall0 in Hk. destruct (is_lit o'); simpl in Hk; destruct Hk as [Hk | (a & b & Hk)]; discriminate.
    + simpl in Hk. destruct Hk as [Hk | (a & b & Hk)]; discriminate.
  - (* method call: the result is a call or an injected sequence *)
    simpl in Hk. destruct (rw e1 c) as [o' c1]. destruct (rw e2 c1) as [a' c2].
    destruct (instr m && (negb (is_lit o') || lit_ok m) && recv_ok o').
    + unfold rw_mcall in Hk. destruct (is_lit o'); destruct (arg_act a'); simpl in Hk;
        destruct Hk as [Hk | (a & b & Hk)]; discriminate.
    + simpl in Hk. destruct Hk as [Hk | (a & b & Hk)]; discriminate.
  - (* property read: the result is a property read *)
    cbn [Sem.rw] in Hk. destruct (rw e c) as [o' c1]. simpl in Hk. destruct Hk as [Hk | (a & b & Hk)]; discriminate.
  - (* template: the result is a template, a hook call or an injected sequence *)
    rewrite rw_tpl1_eq in Hk. destruct (is_lit e).
    + simpl in Hk. destruct Hk as [Hk | (a & b & Hk)]; discriminate.
    + destruct (rw e c) as [e' c1]. unfold rw_tpl1 in Hk.
      destruct (arg_act e'); simpl in Hk; destruct Hk as [Hk | (a & b & Hk)]; discriminate.
  - rewrite rw_tpl2_eq in Hk. destruct (is_lit e1 || is_lit e2).
    + simpl in Hk. destruct Hk as [Hk | (a & b & Hk)]; discriminate.
    + destruct (rw e1 c) as [l' c1]. destruct (rw e2 c1) as [r' c2]. unfold rw_tpl2 in Hk.
      destruct (arg_act l'); destruct (arg_act r'); simpl in Hk; destruct Hk as [Hk | (a & b & Hk)]; discriminate.
  - (* optional method calls: an optional call or a guard *)
    rewrite rw_optm0_eq in Hk. destruct (instr m && negb (is_lit e)).
    + destruct (rw e (S c)) as [o' c1]. unfold rw_mcall0 in Hk. cbn [is_lit] in Hk. simpl in Hk.
      destruct Hk as [Hk | (a & b & Hk)]; discriminate.
    + destruct (rw e c) as [o' c1]. simpl in Hk. destruct Hk as [Hk | (a & b & Hk)]; discriminate.
  - rewrite rw_optm1_eq in Hk. destruct (instr m && negb (is_lit e1)).
    + destruct (rw e1 (S c)) as [o' c1]. destruct (rw e2 c1) as [a' c2]. unfold rw_mcall in Hk. cbn [is_lit] in Hk.
      destruct (arg_act a'); simpl in Hk; destruct Hk as [Hk | (a & b & Hk)]; discriminate.
    + destruct (rw e1 c) as [o' c1]. destruct (rw e2 c1) as [a' c2]. simpl in Hk. destruct Hk as [Hk | (a & b & Hk)]; discriminate.
  - (* o[k] += e : the result is an assignment or an injected sequence *)
    rewrite rw_addasgc_eq in Hk. destruct (rw e1 c) as [o' c1]. destruct (rw e2 c1) as [k' c2]. destruct (rw e3 c2) as [e' c3].
    unfold rw_addasg_c in Hk.
    destruct (is_lit o' || is_triv o' && negb (negb (is_triv k'))); destruct (negb (is_triv k'));
      destruct (rw_add _ (group_sum e') _) as [sum c6]; simpl in Hk;
      destruct Hk as [Hk | (a & b & Hk)]; discriminate.
  - (* o[k]: the result is a property read *)
    cbn [Sem.rw] in Hk. destruct (rw e1 c) as [o' c1]. destruct (rw e2 c1) as [k' c2]. simpl in Hk.
    destruct Hk as [Hk | (a & b & Hk)]; discriminate.
Qed.

(* Main statement: same outcome, same history, and only temporaries of the allocated range are touched. *)
Definition correct (e : expr) : Prop := forall c h t,
  let e' := fst (rw e c) in let c' := snd (rw e c) in
  c <= c' /\
  forall o h', (forall t2 : tenv, eval e (h, t2) = (o, (h', t2))) ->
     exists t', eval e' (h, t) = (o, (h', t')) /\ frame c c' t t'.

Ltac frame_tac :=
  unfold frame in *; intros;
  repeat first
    [ match goal with |- context [upd _ ?n _ ?m] => rewrite (@upd_other _ n m _) by lia end
    | match goal with H : forall n, _ -> _ = _ |- _ => rewrite H by lia end ];
  auto.

Lemma not_hoist_shape_l l' r' : left_act l' r' <> Hoist -> is_triv l' = true \/ exists a b, l' = Add a b.
Proof. destruct l'; simpl; try congruence; eauto. Qed.

Lemma not_hoist_shape_r l' r' : right_act l' r' <> Hoist -> is_triv r' = true \/ exists a b, r' = Add a b.
Proof. destruct r'; simpl; try congruence; eauto. Qed.

(** When the left operand stays and the right one is hoisted, the left one is a literal or a sum. *)
Lemma stay_hoist_const l' r' : left_act l' r' <> Hoist -> right_act l' r' = Hoist ->
  (exists v, l' = Lit v) \/ exists a b, l' = Add a b.
Proof.
  destruct l'; simpl; try congruence; eauto.
  intros NL HR. destruct r'; simpl in *; try discriminate HR; exfalso; apply NL; reflexivity.
Qed.

Lemma arg_not_hoist r' : arg_act r' <> Hoist ->
  (is_triv r' = true \/ exists a b, r' = Add a b) /\ ((exists v, r' = Lit v) \/ exists a b, r' = Add a b).
Proof. destruct r'; simpl; try congruence; intros _; split; eauto. Qed.

Lemma const_of_inplace e : inplace e -> ((exists v, e = Lit v) \/ exists a b, e = Add a b) -> const_expr e.
Proof.
  intros IP [(v & ->) | (a & b & ->)].
  - exists v. intros s; reflexivity.
  - destruct IP as [T | L]; [discriminate T|]. destruct (litsum_eval _ L) as (s0 & Es).
    exists (VStr s0). intros [h0 t0]. apply Es.
Qed.

Lemma const_pure e : const_expr e -> pure_expr e.
Proof. intros (v & H) s. exists v. apply H. Qed.

Lemma eval_group_sum e (s : st) : eval (group_sum e) s = eval e s.
Proof. destruct e; reflexivity. Qed.

Lemma group_sum_triv e : is_triv (group_sum e) = true -> group_sum e = e /\ is_triv e = true.
Proof. destruct e; simpl; try discriminate; auto. Qed.

(** The right operand of the sum built for a compound assignment: kept when it is a literal or an identifier,
    hoisted otherwise (it is never a bare sum: [group_sum]). *)
Lemma right_act_grouped l e : (forall a b, l <> Add a b) -> is_triv (group_sum e) = false ->
  right_act l (group_sum e) = Hoist.
Proof. intros NL. destruct e; simpl; try discriminate; reflexivity. Qed.

Lemma right_act_triv l r : (forall a b, l <> Add a b) -> is_triv r = true -> right_act l r = Keep.
Proof. intros NL. destruct r; simpl; try discriminate; intros _; [reflexivity|]. destruct l; try reflexivity. exfalso; eapply NL; reflexivity. Qed.

Lemma eval_asgv x e (s : st) :
  eval (AsgV x e) s = bind (eval e s) (fun r s1 => bind (fire respond (EvWrite x r) s1) (fun _ s2 => (Ret r, s2))).
Proof. reflexivity. Qed.

Lemma eval_asgm o k e (s : st) :
  eval (AsgM o k e) s = bind (eval o s) (fun vo s1 => bind (eval e s1) (fun r s2 =>
                         bind (fire respond (EvSet vo k r) s2) (fun _ s3 => (Ret r, s3)))).
Proof. reflexivity. Qed.

Lemma eval_asgc o k e (s : st) :
  eval (AsgC o k e) s = bind (eval o s) (fun vo s1 => bind (eval k s1) (fun vk s2 => bind (eval e s2) (fun r s3 =>
                         bind (fire respond (EvSetV vo vk r) s3) (fun _ s4 => (Ret r, s4))))).
Proof. reflexivity. Qed.

Lemma eval_getc o k (s : st) :
  eval (GetC o k) s = bind (eval o s) (fun vo s1 => bind (eval k s1) (fun vk s2 => fire respond (EvGetV vo vk) s2)).
Proof. reflexivity. Qed.

Lemma eval_addasgc o k e (s : st) :
  eval (AddAsgC o k e) s =
  bind (eval o s) (fun vo s1 => bind (eval k s1) (fun vk s2 => bind (fire respond (EvGetV vo vk) s2) (fun v1 s3 =>
  bind (eval e s3) (fun v2 s4 => bind (do_add respond v1 v2 s4) (fun r s5 =>
  bind (fire respond (EvSetV vo vk r) s5) (fun _ s6 => (Ret r, s6))))))).
Proof. reflexivity. Qed.

Lemma rw_add_le l r c : c <= snd (rw_add l r c).
Proof.
  unfold rw_add. destruct (left_act l r); destruct (right_act l r); cbn [fst snd app];
    match goal with |- context [if ?b then _ else _] => destruct b end; cbn [fst snd]; lia.
Qed.

Lemma eval_var x (s : st) : eval (Var x) s = (Ret (ustore (fst s) x), s).
Proof. reflexivity. Qed.

Lemma is_lit_inv e : is_lit e = true -> exists v, e = Lit v.
Proof. destruct e; simpl; try discriminate; eauto. Qed.

Ltac step_eval := repeat first [rewrite eval_tmp | rewrite eval_lit | progress cbn [bind fst snd]].

Theorem rw_correct e : src e -> correct e.
Proof.
  induction e; simpl; try tauto; intros Hs; unfold correct; intros c h t; cbn zeta.
  - simpl. split; [lia|]. intros o h' E. exists t. split; [apply E|apply frame_refl].
  - simpl. split; [lia|]. intros o h' E. exists t. split; [apply E|apply frame_refl].
  - (* Add *)
    destruct Hs as [Hl Hr].
    pose proof (IHe1 Hl c) as I1. pose proof (rw_inplace_src e1 c Hl) as P1.
    rewrite rw_add_eq. simpl. destruct (rw e1 c) as [l' c1] eqn:Rl. simpl in I1, P1.
    pose proof (IHe2 Hr c1) as I2. pose proof (rw_inplace_src e2 c1 Hr) as P2.
    destruct (rw e2 c1) as [r' c2] eqn:Rr. simpl in I2, P2.
    assert (Hc1 : c <= c1) by (destruct (I1 h t); auto).
    assert (Hc2 : c1 <= c2) by (destruct (I2 h t); auto).
    destruct (src_tenv e1 Hl h t) as (o1 & h1 & E1).
    (* is the left / right operand hoisted? *)
    assert (DL : left_act l' r' = Hoist \/ left_act l' r' <> Hoist) by (destruct (left_act l' r'); auto; right; discriminate).
    assert (DR : right_act l' r' = Hoist \/ right_act l' r' <> Hoist) by (destruct (right_act l' r'); auto; right; discriminate).
    destruct DL as [HL | NL]; destruct DR as [HR | NR].
    + (* both hoisted *)
      unfold rw_add. rewrite HL, HR. cbn [app forallb is_lit andb fst snd wrap].
      split; [lia|]. intros o h' E.
      destruct (I1 h t) as (_ & K1). destruct (K1 o1 h1 E1) as (t1 & El & F1).
      simpl. rewrite El. specialize (E t). rewrite E1 in E.
      destruct o1 as [a|a]; simpl in *; [|inversion E; subst o h'; eexists; split; [reflexivity|frame_tac]].
      destruct (src_tenv e2 Hr h1 t) as (o2 & h2 & E2).
      destruct (I2 h1 (upd t1 c2 a)) as (_ & K2). destruct (K2 o2 h2 E2) as (t2 & Er & F2).
      rewrite Er. rewrite E2 in E. simpl in E.
      destruct o2 as [b|b]; simpl in *; [|inversion E; subst o h'; eexists; split; [reflexivity|frame_tac]].
      rewrite upd_same.
      assert (Hk : upd t2 (S c2) b c2 = a).
      { rewrite upd_other by lia. rewrite F2 by lia. apply upd_same. }
      rewrite Hk. unfold do_add in *. destruct (pure_add a b) as [v|].
      * inversion E; subst o h'. rewrite ?Hk, ?upd_same. simpl. eexists; (split; [reflexivity|frame_tac]).
      * unfold fire in *. destruct (respond h2 (EvAdd a b)); simpl in *; inversion E; subst o h';
          rewrite ?Hk, ?upd_same; simpl; eexists; (split; [reflexivity|frame_tac]).
    + (* left hoisted, right in place *)
      destruct (P2 (not_hoist_shape_r l' r' NR)) as [Q2 IP2]. inversion Q2; subst r' c2.
      assert (GEN : forall args, Forall pure_expr args ->
                forall o h', (forall t2 : tenv, eval (Add e1 e2) (h, t2) = (o, (h', t2))) ->
                exists t', eval (Hoist1 c1 l' (Hook (Add (Tmp c1) e2) args)) (h, t) = (o, (h', t')) /\ frame c (S c1) t t').
      { intros args PA o h' E.
        destruct (I1 h t) as (_ & K1). destruct (K1 o1 h1 E1) as (t1 & El & F1).
        rewrite eval_hoist1, El. specialize (E t). rewrite eval_add, E1 in E.
        destruct o1 as [a|a]; cbn [bind fst snd] in *;
          [|inversion E; subst o h'; eexists; split; [reflexivity|frame_tac]].
        rewrite (hook_pure _ _ PA). rewrite eval_add, eval_tmp. cbn [bind fst snd]. rewrite upd_same.
        destruct (src_tenv e2 Hr h1 t) as (o2 & h2 & E2). rewrite E2 in *.
        destruct o2 as [b|b]; cbn [bind] in *;
          [|inversion E; subst o h'; eexists; split; [reflexivity|frame_tac]].
        unfold do_add in *. destruct (pure_add a b) as [v|].
        - inversion E; subst o h'. eexists; (split; [reflexivity|frame_tac]).
        - unfold fire in *. destruct (respond h2 (EvAdd a b)); inversion E; subst o h';
            eexists; (split; [reflexivity|frame_tac]). }
      unfold rw_add. rewrite HL.
      destruct (right_act l' e2) eqn:RA; try congruence; cbn [app forallb is_lit andb fst snd wrap];
        (split; [lia|]); apply GEN; repeat constructor; try apply pure_tmp; apply pure_inplace; exact IP2.
    + (* left in place (a literal or a sum of literals), right hoisted *)
      destruct (P1 (not_hoist_shape_l l' r' NL)) as [Q1 IP1]. inversion Q1; subst l' c1.
      assert (C1 : const_expr e1).
      { destruct (stay_hoist_const e1 r' NL HR) as [(v & ->) | (a & b & ->)].
        - exists v. intros s; reflexivity.
        - destruct IP1 as [T | L]; [discriminate T|]. destruct (litsum_eval _ L) as (s0 & Es).
          exists (VStr s0). intros [h0 t0]. apply Es. }
      destruct C1 as (a & Ca).
      assert (o1 = Ret a /\ h1 = h) as [-> ->] by (specialize (E1 t); rewrite Ca in E1; inversion E1; auto).
      assert (GEN : forall args, Forall pure_expr args ->
                forall o h', (forall t2 : tenv, eval (Add e1 e2) (h, t2) = (o, (h', t2))) ->
                exists t', eval (Hoist1 c2 r' (Hook (Add e1 (Tmp c2)) args)) (h, t) = (o, (h', t')) /\ frame c (S c2) t t').
      { intros args PA o h' E.
        destruct (src_tenv e2 Hr h t) as (o2 & h2 & E2).
        destruct (I2 h t) as (_ & K2). destruct (K2 o2 h2 E2) as (t2 & Er & F2).
        rewrite eval_hoist1, Er. specialize (E t). rewrite eval_add, Ca in E. cbn [bind] in E. rewrite E2 in E.
        destruct o2 as [b|b]; cbn [bind fst snd] in *;
          [|inversion E; subst o h'; eexists; split; [reflexivity|frame_tac]].
        rewrite (hook_pure _ _ PA). rewrite eval_add, Ca. cbn [bind]. rewrite eval_tmp. cbn [bind fst snd]. rewrite upd_same.
        unfold do_add in *. destruct (pure_add a b) as [v|].
        - inversion E; subst o h'. eexists; (split; [reflexivity|frame_tac]).
        - unfold fire in *. destruct (respond h2 (EvAdd a b)); inversion E; subst o h';
            eexists; (split; [reflexivity|frame_tac]). }
      unfold rw_add. rewrite HR.
      destruct (left_act e1 r') eqn:LA; try congruence; cbn [app forallb is_lit andb fst snd wrap];
        try rewrite Bool.andb_false_r; cbn [fst snd wrap app];
        (split; [lia|]); apply GEN; repeat constructor; try apply pure_tmp; apply pure_inplace; exact IP1.
    + (* both in place: the sum itself, possibly wrapped in a hook call whose arguments are pure *)
      destruct (P1 (not_hoist_shape_l l' r' NL)) as [Q1 IP1]. inversion Q1; subst l' c1.
      destruct (P2 (not_hoist_shape_r e1 r' NR)) as [Q2 IP2]. inversion Q2; subst r' c2.
      assert (PA : forall args, Forall (fun x => x = e1 \/ x = e2) args -> Forall pure_expr args).
      { intros args F. eapply Forall_impl; [|exact F]. intros x [-> | ->]; apply pure_inplace; assumption. }
      unfold rw_add.
      destruct (left_act e1 e2) eqn:LA; try congruence; destruct (right_act e1 e2) eqn:RA; try congruence;
        cbn [app fst snd wrap];
        match goal with |- context [if ?b then _ else _] => destruct b end; cbn [fst snd wrap];
        (split; [lia|]); intros o h' E; exists t; (split; [|apply frame_refl]);
        try rewrite hook_pure by (apply PA; repeat constructor; auto); apply E.
  - (* CallE : congruence *)
    destruct Hs as [Hl Hr].
    pose proof (IHe1 Hl c) as I1. rewrite rw_calle_eq. destruct (rw e1 c) as [l' c1] eqn:Rl. simpl in I1.
    pose proof (IHe2 Hr c1) as I2. destruct (rw e2 c1) as [r' c2] eqn:Rr. simpl in I2.
    assert (Hc1 : c <= c1) by (destruct (I1 h t); auto).
    assert (Hc2 : c1 <= c2) by (destruct (I2 h t); auto).
    cbn [fst snd]. split; [lia|]. intros o h' E.
    destruct (src_tenv e1 Hl h t) as (o1 & h1 & E1).
    destruct (I1 h t) as (_ & K1). destruct (K1 o1 h1 E1) as (t1 & El & F1).
    simpl. rewrite El. specialize (E t). simpl in E. rewrite E1 in E.
    destruct o1 as [a|a]; simpl in *; [|inversion E; subst o h'; eexists; split; [reflexivity|frame_tac]].
    destruct (src_tenv e2 Hr h1 t) as (o2 & h2 & E2).
    destruct (I2 h1 t1) as (_ & K2). destruct (K2 o2 h2 E2) as (t2 & Er & F2).
    rewrite Er. rewrite E2 in E. simpl in E.
    destruct o2 as [b|b]; simpl in *; [|inversion E; subst o h'; eexists; split; [reflexivity|frame_tac]].
    unfold fire in *. destruct (respond h2 (EvCall a [b])); simpl in *; inversion E; subst o h';
    eexists; (split; [reflexivity|frame_tac]).
  - (* Par : transparent *)
    pose proof (IHe Hs c h t) as I. simpl. destruct (rw e c) as [x' c1]. exact I.
  - (* x += e *)
    pose proof (IHe Hs c) as I1. pose proof (rw_inplace_src e c Hs) as P1.
    rewrite rw_addasgv_eq. simpl. destruct (rw e c) as [e' c1] eqn:Re. simpl in I1, P1.
    assert (Hc1 : c <= c1) by (destruct (I1 h t); auto).
    destruct (src_tenv e Hs h t) as (o2 & h2 & E2).
    unfold rw_addasg_v, rw_add.
    assert (NL : forall a b, Var x <> Add a b) by (intros; discriminate).
    destruct (is_triv (group_sum e')) eqn:TR.
    + (* the right-hand side stays: x = hook(x + e, x, e) *)
      destruct (group_sum_triv _ TR) as [GS TE]. rewrite GS in *.
      destruct (P1 (or_introl TE)) as [Q1 IP1]. inversion Q1; subst e' c1.
      cbn [left_act]. rewrite TE. rewrite (@right_act_triv (Var x) e NL TE).
      cbn [app forallb is_lit andb fst snd wrap]. split; [lia|]. intros o h' E.
      exists t. split; [|apply frame_refl].
      rewrite eval_asgv. rewrite hook_pure by (repeat constructor; [apply pure_var | apply pure_inplace; exact IP1]).
      rewrite eval_add, eval_var. cbn [bind fst]. specialize (E t). cbn [fst] in E.
      destruct (pure_inplace IP1 (h, t)) as (v2 & Ev). rewrite Ev in *. cbn [bind] in *. exact E.
    + (* both are captured: x = (t0 = x, t1 = e', hook(t0 + t1, t0, t1)) *)
      cbn [left_act]. rewrite TR. rewrite (@right_act_grouped (Var x) e' NL TR).
      cbn [app forallb is_lit andb fst snd wrap]. split; [lia|]. intros o h' E.
      specialize (E t). cbn [fst] in E. rewrite E2 in E.
      destruct (I1 h (upd t c1 (ustore h x))) as (_ & K1). destruct (K1 o2 h2 E2) as (t2 & Er & F2).
      rewrite eval_asgv, eval_hoist2, eval_var. cbn [bind fst snd]. rewrite eval_group_sum, Er.
      destruct o2 as [v2|v2]; cbn [bind fst snd] in *; [|inversion E; subst o h'; eexists; split; [reflexivity|frame_tac]].
      rewrite hook_pure by (repeat constructor; apply pure_tmp).
      rewrite eval_add. step_eval. rewrite upd_same.
      assert (Hk : upd t2 (S c1) v2 c1 = ustore h x).
      { rewrite upd_other by lia. rewrite F2 by lia. apply upd_same. }
      rewrite Hk. unfold do_add in *. destruct (pure_add (ustore h x) v2) as [r|].
      * cbn [bind] in *.
        destruct (respond h2 (EvWrite x r)) eqn:RW;
          [rewrite (fire_ret t RW) in E; rewrite (fire_ret _ RW) | rewrite (fire_thr t RW) in E; rewrite (fire_thr _ RW)];
          cbn [bind] in *; inversion E; subst o h'; eexists; (split; [reflexivity|frame_tac]).
      * destruct (respond h2 (EvAdd (ustore h x) v2)) as [r|r] eqn:RA.
        2:{ rewrite (fire_thr t RA) in E. rewrite (fire_thr _ RA). cbn [bind] in *. inversion E; subst o h'. eexists; split; [reflexivity|frame_tac]. }
        rewrite (fire_ret t RA) in E. rewrite (fire_ret _ RA). cbn [bind] in *.
        destruct (respond (h2 ++ [EvAdd (ustore h x) v2]) (EvWrite x r)) eqn:RW;
          [rewrite (fire_ret t RW) in E; rewrite (fire_ret _ RW) | rewrite (fire_thr t RW) in E; rewrite (fire_thr _ RW)];
          cbn [bind] in *; inversion E; subst o h'; eexists; (split; [reflexivity|frame_tac]).
  - (* o.k += e *)
    destruct Hs as [Hl Hr].
    pose proof (IHe1 Hl c) as I1. pose proof (rw_inplace_src e1 c Hl) as P1.
    rewrite rw_addasgm_eq. simpl. destruct (rw e1 c) as [o' c1] eqn:Ro. simpl in I1, P1.
    pose proof (IHe2 Hr c1) as I2. pose proof (rw_inplace_src e2 c1 Hr) as P2.
    destruct (rw e2 c1) as [e' c2] eqn:Re. simpl in I2, P2.
    assert (Hc1 : c <= c1) by (destruct (I1 h t); auto).
    assert (Hc2 : c1 <= c2) by (destruct (I2 h t); auto).
    destruct (src_tenv e1 Hl h t) as (o1 & h1 & E1).
    unfold rw_addasg_m, rw_add.
    (* the tail shared by all cases: the sum is stored into the property *)
    assert (TAIL : forall vo v1 v2 (hX : hist) (tA tB tC : tenv) o h' lo hi,
               bind (do_add respond v1 v2 (hX, tA)) (fun r s4 => bind (fire respond (EvSet vo k r) s4) (fun _ s5 => (Ret r, s5))) = (o, (h', tA)) ->
               frame lo hi tC tB ->
               exists t', bind (do_add respond v1 v2 (hX, tB)) (fun r s2 => bind (fire respond (EvSet vo k r) s2) (fun _ s3 => (Ret r, s3))) = (o, (h', t')) /\ frame lo hi tC t').
    { intros vo v1 v2 hX tA tB tC o h' lo hi E F.
      destruct (do_add_tenv v1 v2 hX) as (o3 & h4 & E3). rewrite E3 in *.
      destruct o3 as [r|r]; cbn [bind] in *; [|inversion E; subst; eexists; split; [reflexivity | exact F]].
      destruct (fire_tenv (EvSet vo k r) h4) as (o4 & h5 & E4). rewrite E4 in *.
      destruct o4 as [w|w]; cbn [bind] in *; inversion E; subst; eexists; (split; [reflexivity | exact F]). }
    destruct (is_triv o') eqn:TO.
    + (* the object is an identifier or a literal: it stays *)
      destruct (P1 (or_introl eq_refl)) as [Q1 IP1]. inversion Q1; subst o' c1.
      destruct (pure_inplace IP1 (h, t)) as (vo & Evo).
      assert (o1 = Ret vo /\ h1 = h) as [-> ->] by (pose proof (E1 t) as X; rewrite Evo in X; inversion X; auto).
      assert (Ho : forall t0 : tenv, eval e1 (h, t0) = (Ret vo, (h, t0))) by exact E1.
      cbn [left_act fst snd app].
      destruct (is_triv (group_sum e')) eqn:TR.
      * (* o.k = (t0 = o.k, hook(t0 + e, t0, e)) *)
        destruct (group_sum_triv _ TR) as [GS TE]. rewrite GS in *.
        destruct (P2 (or_introl TE)) as [Q2 IP2]. inversion Q2; subst e' c2.
        rewrite (@right_act_triv (Get e1 k) e2 ltac:(intros; discriminate) TE).
        cbn [app forallb is_lit andb fst snd wrap]. split; [lia|]. intros o h' E.
        specialize (E t). rewrite Ho in E. cbn [bind] in E.
        rewrite eval_asgm, Ho. cbn [bind]. rewrite eval_hoist1, eval_get, Ho. cbn [bind].
        destruct (fire_tenv (EvGet vo k) h) as (og & hg & EG). rewrite EG in *.
        destruct og as [v1|v1]; cbn [bind fst snd] in *; [|inversion E; subst o h'; eexists; split; [reflexivity|frame_tac]].
        rewrite hook_pure by (repeat constructor; [apply pure_tmp | apply pure_inplace; exact IP2]).
        rewrite eval_add, eval_tmp. cbn [bind fst snd]. rewrite upd_same.
        destruct (src_tenv e2 Hr hg t) as (o2 & h2 & E2). rewrite E2 in *.
        destruct o2 as [v2|v2]; cbn [bind] in *; [|inversion E; subst o h'; eexists; split; [reflexivity|frame_tac]].
        eapply TAIL; [exact E | frame_tac].
      * (* o.k = (t0 = o.k, t1 = e', hook(t0 + t1, t0, t1)) *)
        rewrite (@right_act_grouped (Get e1 k) e' ltac:(intros; discriminate) TR).
        cbn [app forallb is_lit andb fst snd wrap]. split; [lia|]. intros o h' E.
        specialize (E t). rewrite Ho in E. cbn [bind] in E.
        rewrite eval_asgm, Ho. cbn [bind]. rewrite eval_hoist2, eval_get, Ho. cbn [bind].
        destruct (fire_tenv (EvGet vo k) h) as (og & hg & EG). rewrite EG in *.
        destruct og as [v1|v1]; cbn [bind fst snd] in *; [|inversion E; subst o h'; eexists; split; [reflexivity|frame_tac]].
        destruct (src_tenv e2 Hr hg t) as (o2 & h2 & E2). rewrite E2 in E.
        destruct (I2 hg (upd t c2 v1)) as (_ & K2). destruct (K2 o2 h2 E2) as (t2 & Er & F2).
        rewrite eval_group_sum, Er.
        destruct o2 as [v2|v2]; cbn [bind fst snd] in *; [|inversion E; subst o h'; eexists; split; [reflexivity|frame_tac]].
        rewrite hook_pure by (repeat constructor; apply pure_tmp).
        rewrite eval_add. step_eval. rewrite upd_same.
        assert (Hk : upd t2 (S c2) v2 c2 = v1) by (rewrite upd_other by lia; rewrite F2 by lia; apply upd_same).
        rewrite Hk. eapply TAIL; [exact E | frame_tac].
    + (* the object is captured: (t0 = o', t0.k = ...) *)
      cbn [left_act fst snd app].
      destruct (is_triv (group_sum e')) eqn:TR.
      * destruct (group_sum_triv _ TR) as [GS TE]. rewrite GS in *.
        destruct (P2 (or_introl TE)) as [Q2 IP2]. inversion Q2; subst e' c2.
        rewrite (@right_act_triv (Get (Tmp c1) k) e2 ltac:(intros; discriminate) TE).
        cbn [app forallb is_lit andb fst snd wrap]. split; [lia|]. intros o h' E.
        specialize (E t). rewrite E1 in E.
        destruct (I1 h t) as (_ & K1). destruct (K1 o1 h1 E1) as (t1 & El & F1).
        rewrite eval_hoist1, El.
        destruct o1 as [vo|vo]; cbn [bind fst snd] in *; [|inversion E; subst o h'; eexists; split; [reflexivity|frame_tac]].
        rewrite eval_asgm, eval_tmp. cbn [bind fst snd]. rewrite upd_same.
        rewrite eval_hoist1, eval_get, eval_tmp. cbn [bind fst snd]. rewrite upd_same.
        destruct (fire_tenv (EvGet vo k) h1) as (og & hg & EG). rewrite EG in *.
        destruct og as [v1|v1]; cbn [bind fst snd] in *; [|inversion E; subst o h'; eexists; split; [reflexivity|frame_tac]].
        rewrite hook_pure by (repeat constructor; [apply pure_tmp | apply pure_inplace; exact IP2]).
        rewrite eval_add, eval_tmp. cbn [bind fst snd]. rewrite upd_same.
        destruct (src_tenv e2 Hr hg t) as (o2 & h2 & E2). rewrite E2 in *.
        destruct o2 as [v2|v2]; cbn [bind] in *; [|inversion E; subst o h'; eexists; split; [reflexivity|frame_tac]].
        eapply TAIL; [exact E | frame_tac].
      * rewrite (@right_act_grouped (Get (Tmp c2) k) e' ltac:(intros; discriminate) TR).
        cbn [app forallb is_lit andb fst snd wrap]. split; [lia|]. intros o h' E.
        specialize (E t). rewrite E1 in E.
        destruct (I1 h t) as (_ & K1). destruct (K1 o1 h1 E1) as (t1 & El & F1).
        rewrite eval_hoist1, El.
        destruct o1 as [vo|vo]; cbn [bind fst snd] in *; [|inversion E; subst o h'; eexists; split; [reflexivity|frame_tac]].
        rewrite eval_asgm, eval_tmp. cbn [bind fst snd]. rewrite upd_same.
        rewrite eval_hoist2, eval_get, eval_tmp. cbn [bind fst snd]. rewrite upd_same.
        destruct (fire_tenv (EvGet vo k) h1) as (og & hg & EG). rewrite EG in *.
        destruct og as [v1|v1]; cbn [bind fst snd] in *; [|inversion E; subst o h'; eexists; split; [reflexivity|frame_tac]].
        destruct (src_tenv e2 Hr hg t) as (o2 & h2 & E2). rewrite E2 in E.
        destruct (I2 hg (upd (upd t1 c2 vo) (S c2) v1)) as (_ & K2). destruct (K2 o2 h2 E2) as (t2 & Er & F2).
        rewrite eval_group_sum, Er.
        destruct o2 as [v2|v2]; cbn [bind fst snd] in *; [|inversion E; subst o h'; eexists; split; [reflexivity|frame_tac]].
        rewrite hook_pure by (repeat constructor; apply pure_tmp).
        rewrite eval_add. step_eval. rewrite upd_same.
        assert (Hk : upd t2 (S (S c2)) v2 (S c2) = v1) by (rewrite upd_other by lia; rewrite F2 by lia; apply upd_same).
        rewrite Hk. eapply TAIL; [exact E | frame_tac].
  - (* method call without argument *)
    pose proof (IHe Hs c) as I1. pose proof (rw_inplace_src e c Hs) as P1.
    simpl. destruct (rw e c) as [l' c1] eqn:Rl. simpl in I1, P1.
    assert (Hc1 : c <= c1) by (destruct (I1 h t); auto).
    destruct (src_tenv e Hs h t) as (o1 & h1 & E1).
    destruct (instr m && (negb (is_lit l') || lit_ok m) && recv_ok l') eqn:INS.
    + unfold rw_mcall0. destruct (is_lit l') eqn:LL.
      * assert (TL : is_triv l' = true) by (destruct l'; simpl in *; congruence).
        destruct (P1 (or_introl TL)) as [Q1 _]. inversion Q1; subst l' c1.
        destruct (is_lit_inv _ LL) as (v0 & ->).
        assert (o1 = Ret v0 /\ h1 = h) as [-> ->] by (specialize (E1 t); simpl in E1; inversion E1; auto).
        cbn [app fst snd wrap]. split; [lia|]. intros o h' E.
        specialize (E t). rewrite E1 in E. cbn [bind] in E.
        rewrite eval_hoist1, eval_get, eval_lit. cbn [bind].
        destruct (respond h (EvGet v0 m)) as [vf|vf] eqn:RG.
        2:{ rewrite (fire_thr t RG) in E. rewrite (fire_thr t RG). cbn [bind] in *. inversion E; subst o h'. eexists; split; [reflexivity|frame_tac]. }
        rewrite (fire_ret t RG) in E. rewrite (fire_ret t RG). cbn [bind fst snd] in *.
        rewrite hook_pure by (repeat constructor; try apply pure_tmp; apply pure_lit).
        rewrite eval_callt0. step_eval. rewrite upd_same.
        destruct (respond (h ++ [EvGet v0 m]) (EvCallT vf v0 [])) eqn:RC;
          [rewrite (fire_ret t RC) in E; rewrite (fire_ret _ RC) | rewrite (fire_thr t RC) in E; rewrite (fire_thr _ RC)];
          inversion E; subst o h'; eexists; (split; [reflexivity|frame_tac]).
      * cbn [app fst snd wrap]. split; [lia|]. intros o h' E.
        destruct (I1 h t) as (_ & K1). destruct (K1 o1 h1 E1) as (t1 & El & F1).
        specialize (E t). rewrite E1 in E.
        rewrite eval_hoist2, El.
        destruct o1 as [vo|vo]; cbn [bind fst snd] in *; [|inversion E; subst o h'; eexists; split; [reflexivity|frame_tac]].
        rewrite eval_get, eval_tmp. cbn [bind fst snd]. rewrite upd_same.
        destruct (respond h1 (EvGet vo m)) as [vf|vf] eqn:RG.
        2:{ rewrite (fire_thr t RG) in E. rewrite (fire_thr _ RG). cbn [bind] in *. inversion E; subst o h'. eexists; split; [reflexivity|frame_tac]. }
        rewrite (fire_ret t RG) in E. rewrite (fire_ret _ RG). cbn [bind fst snd] in *.
        rewrite hook_pure by (repeat constructor; apply pure_tmp).
        rewrite eval_callt0. step_eval. rewrite upd_same. rewrite upd_other by lia. rewrite upd_same.
        destruct (respond (h1 ++ [EvGet vo m]) (EvCallT vf vo [])) eqn:RC;
          [rewrite (fire_ret t RC) in E; rewrite (fire_ret _ RC) | rewrite (fire_thr t RC) in E; rewrite (fire_thr _ RC)];
          inversion E; subst o h'; eexists; (split; [reflexivity|frame_tac]).
    + cbn [fst snd]. split; [lia|]. intros o h' E.
      destruct (I1 h t) as (_ & K1). destruct (K1 o1 h1 E1) as (t1 & El & F1).
      rewrite eval_mcall0, El. specialize (E t). rewrite E1 in E.
      destruct o1 as [vo|vo]; cbn [bind] in *; [|inversion E; subst o h'; eexists; split; [reflexivity|frame_tac]].
      destruct (respond h1 (EvGet vo m)) as [vf|vf] eqn:RG.
      2:{ rewrite (fire_thr t RG) in E. rewrite (fire_thr t1 RG). cbn [bind] in *. inversion E; subst o h'. eexists; split; [reflexivity|frame_tac]. }
      rewrite (fire_ret t RG) in E. rewrite (fire_ret t1 RG). cbn [bind] in *.
      destruct (respond (h1 ++ [EvGet vo m]) (EvCallT vf vo [])) eqn:RC;
        [rewrite (fire_ret t RC) in E; rewrite (fire_ret t1 RC) | rewrite (fire_thr t RC) in E; rewrite (fire_thr t1 RC)];
        inversion E; subst o h'; eexists; (split; [reflexivity|frame_tac]).
  - (* method call *)
    destruct Hs as [Hl Hr].
    pose proof (IHe1 Hl c) as I1. pose proof (rw_inplace_src e1 c Hl) as P1.
    simpl. destruct (rw e1 c) as [l' c1] eqn:Rl. simpl in I1, P1.
    pose proof (IHe2 Hr c1) as I2. pose proof (rw_inplace_src e2 c1 Hr) as P2.
    destruct (rw e2 c1) as [r' c2] eqn:Rr. simpl in I2, P2.
    assert (Hc1 : c <= c1) by (destruct (I1 h t); auto).
    assert (Hc2 : c1 <= c2) by (destruct (I2 h t); auto).
    destruct (src_tenv e1 Hl h t) as (o1 & h1 & E1).
    destruct (instr m && (negb (is_lit l') || lit_ok m) && recv_ok l') eqn:INS.
    + (* instrumented *)
      unfold rw_mcall.
      assert (DA : arg_act r' = Hoist \/ arg_act r' <> Hoist) by (destruct (arg_act r'); auto; right; discriminate).
      (* the source evaluation, step by step *)
      destruct (is_lit l') eqn:LL.
      * (* literal receiver: it stays *)
        assert (TL : is_triv l' = true) by (destruct l'; simpl in *; congruence).
        destruct (P1 (or_introl TL)) as [Q1 _]. inversion Q1; subst l' c1.
        destruct (is_lit_inv _ LL) as (v0 & ->).
        assert (o1 = Ret v0 /\ h1 = h) as [-> ->] by (specialize (E1 t); simpl in E1; inversion E1; auto).
        destruct DA as [HA | NA].
        -- (* argument hoisted *)
           rewrite HA. cbn [app fst snd wrap]. split; [lia|]. intros o h' E.
           specialize (E t). rewrite E1 in E. cbn [bind] in E.
           rewrite eval_hoist2, eval_get, eval_lit. cbn [bind].
           destruct (respond h (EvGet v0 m)) as [vf|vf] eqn:RG.
           2:{ rewrite (fire_thr t RG) in E. rewrite (fire_thr t RG). cbn [bind] in *. inversion E; subst o h'. eexists; split; [reflexivity|frame_tac]. }
           rewrite (fire_ret t RG) in E. rewrite (fire_ret t RG). cbn [bind fst snd] in *.
           destruct (src_tenv e2 Hr (h ++ [EvGet v0 m]) t) as (o2 & h2 & E2).
           destruct (I2 (h ++ [EvGet v0 m]) (upd t c2 vf)) as (_ & K2). destruct (K2 o2 h2 E2) as (t2 & Er & F2).
           rewrite Er. rewrite E2 in E.
           destruct o2 as [va|va]; cbn [bind fst snd] in *; [|inversion E; subst o h'; eexists; split; [reflexivity|frame_tac]].
           rewrite hook_pure by (repeat constructor; try apply pure_tmp; apply pure_lit).
           rewrite eval_callt1. step_eval. rewrite upd_same.
           assert (Hf : upd t2 (S c2) va c2 = vf).
           { rewrite upd_other by lia. rewrite F2 by lia. apply upd_same. }
           rewrite Hf.
           destruct (respond h2 (EvCallT vf v0 [va])) eqn:RC;
             [rewrite (fire_ret t RC) in E; rewrite (fire_ret _ RC) | rewrite (fire_thr t RC) in E; rewrite (fire_thr _ RC)];
             inversion E; subst o h'; eexists; (split; [reflexivity|frame_tac]).
        -- (* argument in place: a literal or a sum of literals *)
           destruct (arg_not_hoist r' NA) as [SH CK]. destruct (P2 SH) as [Q2 IP2]. inversion Q2; subst r' c2.
           destruct (const_of_inplace IP2 CK) as (va & Ca).
           assert (GEN : forall args, Forall pure_expr args ->
                     forall o h', (forall t2 : tenv, eval (MCall1 (Lit v0) m e2) (h, t2) = (o, (h', t2))) ->
                     exists t', eval (Hoist1 c (Get (Lit v0) m) (Hook (CallT1 (Tmp c) (Lit v0) e2) args)) (h, t) = (o, (h', t')) /\ frame c (S c) t t').
           { intros args PA o h' E. specialize (E t). rewrite eval_mcall1, eval_lit in E. cbn [bind] in E.
             rewrite eval_hoist1, eval_get, eval_lit. cbn [bind].
             destruct (respond h (EvGet v0 m)) as [vf|vf] eqn:RG.
             2:{ rewrite (fire_thr t RG) in E. rewrite (fire_thr t RG). cbn [bind] in *. inversion E; subst o h'. eexists; split; [reflexivity|frame_tac]. }
             rewrite (fire_ret t RG) in E. rewrite (fire_ret t RG). cbn [bind fst snd] in *.
             rewrite Ca in E. cbn [bind] in E.
             rewrite (hook_pure _ _ PA). rewrite eval_callt1. step_eval. rewrite upd_same, Ca. cbn [bind].
             destruct (respond (h ++ [EvGet v0 m]) (EvCallT vf v0 [va])) eqn:RC;
               [rewrite (fire_ret t RC) in E; rewrite (fire_ret _ RC) | rewrite (fire_thr t RC) in E; rewrite (fire_thr _ RC)];
               inversion E; subst o h'; eexists; (split; [reflexivity|frame_tac]). }
           destruct (arg_act e2) eqn:AA; try congruence; cbn [app fst snd wrap]; (split; [lia|]);
             apply GEN; repeat constructor; try apply pure_tmp; try apply pure_lit; apply const_pure; exists va; exact Ca.
      * (* the receiver is captured *)
        destruct DA as [HA | NA].
        -- rewrite HA. cbn [app fst snd wrap]. split; [lia|]. intros o h' E.
           destruct (I1 h t) as (_ & K1). destruct (K1 o1 h1 E1) as (t1 & El & F1).
           specialize (E t). rewrite E1 in E.
           rewrite eval_hoist3, El.
           destruct o1 as [vo|vo]; cbn [bind fst snd] in *; [|inversion E; subst o h'; eexists; split; [reflexivity|frame_tac]].
           rewrite eval_get, eval_tmp. cbn [bind fst snd]. rewrite upd_same.
           destruct (respond h1 (EvGet vo m)) as [vf|vf] eqn:RG.
           2:{ rewrite (fire_thr t RG) in E. rewrite (fire_thr _ RG). cbn [bind] in *. inversion E; subst o h'. eexists; split; [reflexivity|frame_tac]. }
           rewrite (fire_ret t RG) in E. rewrite (fire_ret _ RG). cbn [bind fst snd] in *.
           destruct (src_tenv e2 Hr (h1 ++ [EvGet vo m]) t) as (o2 & h2 & E2).
           destruct (I2 (h1 ++ [EvGet vo m]) (upd (upd t1 c2 vo) (S c2) vf)) as (_ & K2). destruct (K2 o2 h2 E2) as (t2 & Er & F2).
           rewrite Er. rewrite E2 in E.
           destruct o2 as [va|va]; cbn [bind fst snd] in *; [|inversion E; subst o h'; eexists; split; [reflexivity|frame_tac]].
           rewrite hook_pure by (repeat constructor; apply pure_tmp).
           rewrite eval_callt1. step_eval. rewrite upd_same.
           assert (Hf : upd t2 (S (S c2)) va (S c2) = vf).
           { rewrite upd_other by lia. rewrite F2 by lia. apply upd_same. }
           assert (Ho : upd t2 (S (S c2)) va c2 = vo).
           { rewrite upd_other by lia. rewrite F2 by lia. rewrite upd_other by lia. apply upd_same. }
           rewrite Hf, Ho.
           destruct (respond h2 (EvCallT vf vo [va])) eqn:RC;
             [rewrite (fire_ret t RC) in E; rewrite (fire_ret _ RC) | rewrite (fire_thr t RC) in E; rewrite (fire_thr _ RC)];
             inversion E; subst o h'; eexists; (split; [reflexivity|frame_tac]).
        -- destruct (arg_not_hoist r' NA) as [SH CK]. destruct (P2 SH) as [Q2 IP2]. inversion Q2; subst r' c2.
           destruct (const_of_inplace IP2 CK) as (va & Ca).
           assert (GEN : forall args, Forall pure_expr args ->
                     forall o h', (forall t2 : tenv, eval (MCall1 e1 m e2) (h, t2) = (o, (h', t2))) ->
                     exists t', eval (Hoist2 c1 l' (S c1) (Get (Tmp c1) m) (Hook (CallT1 (Tmp (S c1)) (Tmp c1) e2) args)) (h, t) = (o, (h', t')) /\ frame c (S (S c1)) t t').
           { intros args PA o h' E. specialize (E t). rewrite eval_mcall1, E1 in E.
             destruct (I1 h t) as (_ & K1). destruct (K1 o1 h1 E1) as (t1 & El & F1).
             rewrite eval_hoist2, El.
             destruct o1 as [vo|vo]; cbn [bind fst snd] in *; [|inversion E; subst o h'; eexists; split; [reflexivity|frame_tac]].
             rewrite eval_get, eval_tmp. cbn [bind fst snd]. rewrite upd_same.
             destruct (respond h1 (EvGet vo m)) as [vf|vf] eqn:RG.
             2:{ rewrite (fire_thr t RG) in E. rewrite (fire_thr _ RG). cbn [bind] in *. inversion E; subst o h'. eexists; split; [reflexivity|frame_tac]. }
             rewrite (fire_ret t RG) in E. rewrite (fire_ret _ RG). cbn [bind fst snd] in *.
             rewrite Ca in E. cbn [bind] in E.
             rewrite (hook_pure _ _ PA). rewrite eval_callt1. step_eval. rewrite Ca. cbn [bind]. rewrite upd_same.
             rewrite upd_other by lia. rewrite upd_same.
             destruct (respond (h1 ++ [EvGet vo m]) (EvCallT vf vo [va])) eqn:RC;
               [rewrite (fire_ret t RC) in E; rewrite (fire_ret _ RC) | rewrite (fire_thr t RC) in E; rewrite (fire_thr _ RC)];
               inversion E; subst o h'; eexists; (split; [reflexivity|frame_tac]). }
           destruct (arg_act e2) eqn:AA; try congruence; cbn [app fst snd wrap]; (split; [lia|]);
             apply GEN; repeat constructor; try apply pure_tmp; apply const_pure; exists va; exact Ca.
    + (* not instrumented: congruence *)
      cbn [fst snd]. split; [lia|]. intros o h' E.
      destruct (I1 h t) as (_ & K1). destruct (K1 o1 h1 E1) as (t1 & El & F1).
      rewrite eval_mcall1, El. specialize (E t). rewrite E1 in E.
      destruct o1 as [vo|vo]; cbn [bind] in *; [|inversion E; subst o h'; eexists; split; [reflexivity|frame_tac]].
      destruct (respond h1 (EvGet vo m)) as [vf|vf] eqn:RG.
      2:{ rewrite (fire_thr t RG) in E. rewrite (fire_thr t1 RG). cbn [bind] in *. inversion E; subst o h'. eexists; split; [reflexivity|frame_tac]. }
      rewrite (fire_ret t RG) in E. rewrite (fire_ret t1 RG). cbn [bind] in *.
      destruct (src_tenv e2 Hr (h1 ++ [EvGet vo m]) t) as (o2 & h2 & E2).
      destruct (I2 (h1 ++ [EvGet vo m]) t1) as (_ & K2). destruct (K2 o2 h2 E2) as (t2 & Er & F2).
      rewrite Er. rewrite E2 in E.
      destruct o2 as [va|va]; cbn [bind] in *; [|inversion E; subst o h'; eexists; split; [reflexivity|frame_tac]].
      destruct (respond h2 (EvCallT vf vo [va])) eqn:RC;
        [rewrite (fire_ret t RC) in E; rewrite (fire_ret t2 RC) | rewrite (fire_thr t RC) in E; rewrite (fire_thr t2 RC)];
        inversion E; subst o h'; eexists; (split; [reflexivity|frame_tac]).
  - (* property read: congruence *)
    pose proof (IHe Hs c) as I1. cbn [Sem.rw]. destruct (rw e c) as [o' c1] eqn:Ro. simpl in I1.
    assert (Hc1 : c <= c1) by (destruct (I1 h t); auto).
    destruct (src_tenv e Hs h t) as (o1 & h1 & E1).
    cbn [fst snd]. split; [lia|]. intros o h' E.
    destruct (I1 h t) as (_ & K1). destruct (K1 o1 h1 E1) as (t1 & El & F1).
    rewrite eval_get, El. specialize (E t). rewrite eval_get, E1 in E.
    destruct o1 as [vo|vo]; cbn [bind] in *; [|inversion E; subst o h'; eexists; split; [reflexivity|frame_tac]].
    destruct (respond h1 (EvGet vo m)) as [vf|vf] eqn:RG;
      [rewrite (fire_ret t RG) in E; rewrite (fire_ret t1 RG) | rewrite (fire_thr t RG) in E; rewrite (fire_thr t1 RG)];
      inversion E; subst o h'; eexists; (split; [reflexivity|frame_tac]).
  - (* template with one substitution *)
    rewrite rw_tpl1_eq. destruct (is_lit e) eqn:LE.
    + cbn [fst snd]. split; [lia|]. intros o h' E. exists t. split; [apply E | apply frame_refl].
    + pose proof (IHe Hs c) as I1. pose proof (rw_inplace_src e c Hs) as P1.
      destruct (rw e c) as [e' c1] eqn:Re. simpl in I1, P1.
      assert (Hc1 : c <= c1) by (destruct (I1 h t); auto).
      destruct (src_tenv e Hs h t) as (o1 & h1 & E1).
      unfold rw_tpl1.
      assert (DA : arg_act e' = Hoist \/ arg_act e' <> Hoist) by (destruct (arg_act e'); auto; right; discriminate).
      destruct DA as [HA | NA].
      * rewrite HA. cbn [wrap fst snd]. split; [lia|]. intros o h' E.
        destruct (I1 h t) as (_ & K1). destruct (K1 o1 h1 E1) as (t1 & El & F1).
        rewrite eval_hoist1, El. specialize (E t). rewrite eval_tpl1, E1 in E.
        destruct o1 as [v|v]; cbn [bind fst snd] in *; [|inversion E; subst o h'; eexists; split; [reflexivity|frame_tac]].
        rewrite hook_pure by (repeat constructor; apply pure_tmp).
        rewrite eval_tpl1, eval_tmp. cbn [bind fst snd]. rewrite upd_same.
        destruct (tpl1_tail_tenv q0 v q1 h1) as (o2 & h2 & E2). rewrite E2 in E. rewrite E2.
        inversion E; subst o h'. eexists; split; [reflexivity|frame_tac].
      * destruct (arg_not_hoist e' NA) as [SH _]. destruct (P1 SH) as [Q1 IP1]. inversion Q1; subst e' c1.
        destruct (arg_act e) eqn:AA; try congruence; cbn [wrap fst snd]; (split; [lia|]); intros o h' E;
          exists t; (split; [|apply frame_refl]);
          rewrite hook_pure by (repeat constructor; apply pure_inplace; exact IP1); apply E.
  - (* template with two substitutions *)
    destruct Hs as [Hl Hr]. rewrite rw_tpl2_eq. destruct (is_lit e1 || is_lit e2) eqn:LE.
    + cbn [fst snd]. split; [lia|]. intros o h' E. exists t. split; [apply E | apply frame_refl].
    + pose proof (IHe1 Hl c) as I1. pose proof (rw_inplace_src e1 c Hl) as P1.
      destruct (rw e1 c) as [l' c1] eqn:Rl. simpl in I1, P1.
      pose proof (IHe2 Hr c1) as I2. pose proof (rw_inplace_src e2 c1 Hr) as P2.
      destruct (rw e2 c1) as [r' c2] eqn:Rr. simpl in I2, P2.
      assert (Hc1 : c <= c1) by (destruct (I1 h t); auto).
      assert (Hc2 : c1 <= c2) by (destruct (I2 h t); auto).
      destruct (src_tenv e1 Hl h t) as (o1 & h1 & E1).
      unfold rw_tpl2.
      assert (DL : arg_act l' = Hoist \/ arg_act l' <> Hoist) by (destruct (arg_act l'); auto; right; discriminate).
      assert (DR : arg_act r' = Hoist \/ arg_act r' <> Hoist) by (destruct (arg_act r'); auto; right; discriminate).
      destruct DL as [HL | NL]; destruct DR as [HR | NR].
      * (* both captured *)
        rewrite HL, HR. cbn [app wrap fst snd]. split; [lia|]. intros o h' E.
        destruct (I1 h t) as (_ & K1). destruct (K1 o1 h1 E1) as (t1 & El & F1).
        rewrite eval_hoist2, El. specialize (E t). rewrite eval_tpl2, E1 in E.
        destruct o1 as [a|a]; cbn [bind fst snd] in *; [|inversion E; subst o h'; eexists; split; [reflexivity|frame_tac]].
        destruct (src_tenv e2 Hr h1 t) as (o2 & h2 & E2).
        destruct (I2 h1 (upd t1 c2 a)) as (_ & K2). destruct (K2 o2 h2 E2) as (t2 & Er & F2).
        rewrite Er. rewrite E2 in E.
        destruct o2 as [b|b]; cbn [bind fst snd] in *; [|inversion E; subst o h'; eexists; split; [reflexivity|frame_tac]].
        rewrite hook_pure by (repeat constructor; apply pure_tmp).
        rewrite eval_tpl2. step_eval. rewrite upd_same.
        assert (Hk : upd t2 (S c2) b c2 = a).
        { rewrite upd_other by lia. rewrite F2 by lia. apply upd_same. }
        rewrite Hk.
        destruct (tpl2_tail_tenv q0 a q1 b q2 h2) as (o3 & h3 & E3). rewrite E3 in E. rewrite E3.
        inversion E; subst o h'. eexists; split; [reflexivity|frame_tac].
      * (* the first captured, the second in place *)
        destruct (arg_not_hoist r' NR) as [SH _]. destruct (P2 SH) as [Q2 IP2]. inversion Q2; subst r' c2.
        assert (GEN : forall args, Forall pure_expr args ->
                  forall o h', (forall t2 : tenv, eval (Tpl2 q0 e1 q1 e2 q2) (h, t2) = (o, (h', t2))) ->
                  exists t', eval (Hoist1 c1 l' (Hook (Tpl2 q0 (Tmp c1) q1 e2 q2) args)) (h, t) = (o, (h', t')) /\ frame c (S c1) t t').
        { intros args PA o h' E.
          destruct (I1 h t) as (_ & K1). destruct (K1 o1 h1 E1) as (t1 & El & F1).
          rewrite eval_hoist1, El. specialize (E t). rewrite eval_tpl2, E1 in E.
          destruct o1 as [a|a]; cbn [bind fst snd] in *; [|inversion E; subst o h'; eexists; split; [reflexivity|frame_tac]].
          rewrite (hook_pure _ _ PA). rewrite eval_tpl2, eval_tmp. cbn [bind fst snd]. rewrite upd_same.
          destruct (src_tenv e2 Hr h1 t) as (o2 & h2 & E2). rewrite E2 in E. rewrite E2.
          destruct o2 as [b|b]; cbn [bind] in *; [|inversion E; subst o h'; eexists; split; [reflexivity|frame_tac]].
          destruct (tpl2_tail_tenv q0 a q1 b q2 h2) as (o3 & h3 & E3). rewrite E3 in E. rewrite E3.
          inversion E; subst o h'. eexists; split; [reflexivity|frame_tac]. }
        rewrite HL.
        destruct (arg_act e2) eqn:RA; try congruence; cbn [app fst snd wrap];
          (split; [lia|]); apply GEN; repeat constructor; try apply pure_tmp; apply pure_inplace; exact IP2.
      * (* the first in place (a constant), the second captured *)
        destruct (arg_not_hoist l' NL) as [SH CK]. destruct (P1 SH) as [Q1 IP1]. inversion Q1; subst l' c1.
        destruct (const_of_inplace IP1 CK) as (a & Ca).
        assert (GEN : forall args, Forall pure_expr args ->
                  forall o h', (forall t2 : tenv, eval (Tpl2 q0 e1 q1 e2 q2) (h, t2) = (o, (h', t2))) ->
                  exists t', eval (Hoist1 c2 r' (Hook (Tpl2 q0 e1 q1 (Tmp c2) q2) args)) (h, t) = (o, (h', t')) /\ frame c (S c2) t t').
        { intros args PA o h' E.
          destruct (src_tenv e2 Hr h t) as (o2 & h2 & E2).
          destruct (I2 h t) as (_ & K2). destruct (K2 o2 h2 E2) as (t2 & Er & F2).
          rewrite eval_hoist1, Er. specialize (E t). rewrite eval_tpl2, Ca in E. cbn [bind] in E. rewrite E2 in E.
          destruct o2 as [b|b]; cbn [bind fst snd] in *; [|inversion E; subst o h'; eexists; split; [reflexivity|frame_tac]].
          rewrite (hook_pure _ _ PA). rewrite eval_tpl2, Ca. cbn [bind]. rewrite eval_tmp. cbn [bind fst snd]. rewrite upd_same.
          destruct (tpl2_tail_tenv q0 a q1 b q2 h2) as (o3 & h3 & E3). rewrite E3 in E. rewrite E3.
          inversion E; subst o h'. eexists; split; [reflexivity|frame_tac]. }
        rewrite HR.
        destruct (arg_act e1) eqn:LA; try congruence; cbn [app fst snd wrap];
          (split; [lia|]); apply GEN; repeat constructor; try apply pure_tmp; apply pure_inplace; exact IP1.
      * (* both in place *)
        destruct (arg_not_hoist l' NL) as [SH1 _]. destruct (P1 SH1) as [Q1 IP1]. inversion Q1; subst l' c1.
        destruct (arg_not_hoist r' NR) as [SH2 _]. destruct (P2 SH2) as [Q2 IP2]. inversion Q2; subst r' c2.
        destruct (arg_act e1) eqn:LA; try congruence; destruct (arg_act e2) eqn:RA; try congruence;
          cbn [app fst snd wrap]; (split; [lia|]); intros o h' E; exists t; (split; [|apply frame_refl]);
          rewrite hook_pure by (repeat constructor; apply pure_inplace; assumption); apply E.
  - (* optional method call without argument *)
    rewrite rw_optm0_eq. destruct (instr m && negb (is_lit e)) eqn:INS.
    + (* the chain is guarded, and the call on the guard temporary is instrumented *)
      pose proof (IHe Hs (S c)) as I1. destruct (rw e (S c)) as [o' c1] eqn:Ro. simpl in I1.
      assert (Hc1 : S c <= c1) by (destruct (I1 h t); auto).
      destruct (src_tenv e Hs h t) as (o1 & h1 & E1).
      unfold rw_mcall0. cbn [is_lit app fst snd wrap]. split; [lia|]. intros o h' E.
      destruct (I1 h t) as (_ & K1). destruct (K1 o1 h1 E1) as (t1 & El & F1).
      rewrite eval_guard, El. specialize (E t). rewrite eval_optm0, E1 in E.
      destruct o1 as [vo|vo]; cbn [bind fst snd] in *; [|inversion E; subst o h'; eexists; split; [reflexivity|frame_tac]].
      destruct (nullish vo) eqn:NV; [inversion E; subst o h'; eexists; split; [reflexivity|frame_tac]|].
      rewrite eval_hoist2, eval_tmp. cbn [bind fst snd]. rewrite upd_same.
      rewrite eval_get, eval_tmp. cbn [bind fst snd]. rewrite upd_same.
      destruct (respond h1 (EvGet vo m)) as [vf|vf] eqn:RG.
      2:{ rewrite (fire_thr t RG) in E. rewrite (fire_thr _ RG). cbn [bind] in *. inversion E; subst o h'. eexists; split; [reflexivity|frame_tac]. }
      rewrite (fire_ret t RG) in E. rewrite (fire_ret _ RG). cbn [bind fst snd] in *.
      rewrite hook_pure by (repeat constructor; apply pure_tmp).
      rewrite eval_callt0. step_eval. rewrite upd_same. rewrite upd_other by lia. rewrite upd_same.
      destruct (respond (h1 ++ [EvGet vo m]) (EvCallT vf vo [])) eqn:RC;
        [rewrite (fire_ret t RC) in E; rewrite (fire_ret _ RC) | rewrite (fire_thr t RC) in E; rewrite (fire_thr _ RC)];
        inversion E; subst o h'; eexists; (split; [reflexivity|frame_tac]).
    + (* left alone: congruence *)
      pose proof (IHe Hs c) as I1. destruct (rw e c) as [o' c1] eqn:Ro. simpl in I1.
      assert (Hc1 : c <= c1) by (destruct (I1 h t); auto).
      destruct (src_tenv e Hs h t) as (o1 & h1 & E1).
      cbn [fst snd]. split; [lia|]. intros o h' E.
      destruct (I1 h t) as (_ & K1). destruct (K1 o1 h1 E1) as (t1 & El & F1).
      rewrite eval_optm0, El. specialize (E t). rewrite eval_optm0, E1 in E.
      destruct o1 as [vo|vo]; cbn [bind] in *; [|inversion E; subst o h'; eexists; split; [reflexivity|frame_tac]].
      destruct (nullish vo) eqn:NV; [inversion E; subst o h'; eexists; split; [reflexivity|frame_tac]|].
      destruct (respond h1 (EvGet vo m)) as [vf|vf] eqn:RG.
      2:{ rewrite (fire_thr t RG) in E. rewrite (fire_thr t1 RG). cbn [bind] in *. inversion E; subst o h'. eexists; split; [reflexivity|frame_tac]. }
      rewrite (fire_ret t RG) in E. rewrite (fire_ret t1 RG). cbn [bind] in *.
      destruct (respond (h1 ++ [EvGet vo m]) (EvCallT vf vo [])) eqn:RC;
        [rewrite (fire_ret t RC) in E; rewrite (fire_ret t1 RC) | rewrite (fire_thr t RC) in E; rewrite (fire_thr t1 RC)];
        inversion E; subst o h'; eexists; (split; [reflexivity|frame_tac]).
  - (* optional method call with one argument *)
    destruct Hs as [Hl Hr]. rewrite rw_optm1_eq. destruct (instr m && negb (is_lit e1)) eqn:INS.
    + pose proof (IHe1 Hl (S c)) as I1. destruct (rw e1 (S c)) as [o' c1] eqn:Ro. simpl in I1.
      pose proof (IHe2 Hr c1) as I2. pose proof (rw_inplace_src e2 c1 Hr) as P2.
      destruct (rw e2 c1) as [a' c2] eqn:Ra. simpl in I2, P2.
      assert (Hc1 : S c <= c1) by (destruct (I1 h t); auto).
      assert (Hc2 : c1 <= c2) by (destruct (I2 h t); auto).
      destruct (src_tenv e1 Hl h t) as (o1 & h1 & E1).
      unfold rw_mcall. cbn [is_lit].
      assert (DA : arg_act a' = Hoist \/ arg_act a' <> Hoist) by (destruct (arg_act a'); auto; right; discriminate).
      destruct DA as [HA | NA].
      * rewrite HA. cbn [app fst snd wrap]. split; [lia|]. intros o h' E.
        destruct (I1 h t) as (_ & K1). destruct (K1 o1 h1 E1) as (t1 & El & F1).
        rewrite eval_guard, El. specialize (E t). rewrite eval_optm1, E1 in E.
        destruct o1 as [vo|vo]; cbn [bind fst snd] in *; [|inversion E; subst o h'; eexists; split; [reflexivity|frame_tac]].
        destruct (nullish vo) eqn:NV; [inversion E; subst o h'; eexists; split; [reflexivity|frame_tac]|].
        rewrite eval_hoist3, eval_tmp. cbn [bind fst snd]. rewrite upd_same.
        rewrite eval_get, eval_tmp. cbn [bind fst snd]. rewrite upd_same.
        destruct (respond h1 (EvGet vo m)) as [vf|vf] eqn:RG.
        2:{ rewrite (fire_thr t RG) in E. rewrite (fire_thr _ RG). cbn [bind] in *. inversion E; subst o h'. eexists; split; [reflexivity|frame_tac]. }
        rewrite (fire_ret t RG) in E. rewrite (fire_ret _ RG). cbn [bind fst snd] in *.
        destruct (src_tenv e2 Hr (h1 ++ [EvGet vo m]) t) as (o2 & h2 & E2).
        destruct (I2 (h1 ++ [EvGet vo m]) (upd (upd (upd t1 c vo) c2 vo) (S c2) vf)) as (_ & K2). destruct (K2 o2 h2 E2) as (t2 & Er & F2).
        rewrite Er. rewrite E2 in E.
        destruct o2 as [va|va]; cbn [bind fst snd] in *; [|inversion E; subst o h'; eexists; split; [reflexivity|frame_tac]].
        rewrite hook_pure by (repeat constructor; apply pure_tmp).
        rewrite eval_callt1. step_eval. rewrite upd_same.
        assert (Hf : upd t2 (S (S c2)) va (S c2) = vf).
        { rewrite upd_other by lia. rewrite F2 by lia. apply upd_same. }
        assert (Ho : upd t2 (S (S c2)) va c2 = vo).
        { rewrite upd_other by lia. rewrite F2 by lia. rewrite upd_other by lia. apply upd_same. }
        rewrite Hf, Ho.
        destruct (respond h2 (EvCallT vf vo [va])) eqn:RC;
          [rewrite (fire_ret t RC) in E; rewrite (fire_ret _ RC) | rewrite (fire_thr t RC) in E; rewrite (fire_thr _ RC)];
          inversion E; subst o h'; eexists; (split; [reflexivity|frame_tac]).
      * destruct (arg_not_hoist a' NA) as [SH CK]. destruct (P2 SH) as [Q2 IP2]. inversion Q2; subst a' c2.
        destruct (const_of_inplace IP2 CK) as (va & Ca).
        assert (GEN : forall args, Forall pure_expr args ->
                  forall o h', (forall t2 : tenv, eval (OptMCall1 e1 m e2) (h, t2) = (o, (h', t2))) ->
                  exists t', eval (Guard c o' (Hoist2 c1 (Tmp c) (S c1) (Get (Tmp c1) m) (Hook (CallT1 (Tmp (S c1)) (Tmp c1) e2) args))) (h, t) = (o, (h', t'))
                             /\ frame c (S (S c1)) t t').
        { intros args PA o h' E. specialize (E t). rewrite eval_optm1, E1 in E.
          destruct (I1 h t) as (_ & K1). destruct (K1 o1 h1 E1) as (t1 & El & F1).
          rewrite eval_guard, El.
          destruct o1 as [vo|vo]; cbn [bind fst snd] in *; [|inversion E; subst o h'; eexists; split; [reflexivity|frame_tac]].
          destruct (nullish vo) eqn:NV; [inversion E; subst o h'; eexists; split; [reflexivity|frame_tac]|].
          rewrite eval_hoist2, eval_tmp. cbn [bind fst snd]. rewrite upd_same.
          rewrite eval_get, eval_tmp. cbn [bind fst snd]. rewrite upd_same.
          destruct (respond h1 (EvGet vo m)) as [vf|vf] eqn:RG.
          2:{ rewrite (fire_thr t RG) in E. rewrite (fire_thr _ RG). cbn [bind] in *. inversion E; subst o h'. eexists; split; [reflexivity|frame_tac]. }
          rewrite (fire_ret t RG) in E. rewrite (fire_ret _ RG). cbn [bind fst snd] in *.
          rewrite Ca in E. cbn [bind] in E.
          rewrite (hook_pure _ _ PA). rewrite eval_callt1. step_eval. rewrite Ca. cbn [bind]. rewrite upd_same.
          rewrite upd_other by lia. rewrite upd_same.
          destruct (respond (h1 ++ [EvGet vo m]) (EvCallT vf vo [va])) eqn:RC;
            [rewrite (fire_ret t RC) in E; rewrite (fire_ret _ RC) | rewrite (fire_thr t RC) in E; rewrite (fire_thr _ RC)];
            inversion E; subst o h'; eexists; (split; [reflexivity|frame_tac]). }
        destruct (arg_act e2) eqn:AA; try congruence; cbn [app fst snd wrap]; (split; [lia|]);
          apply GEN; repeat constructor; try apply pure_tmp; apply const_pure; exists va; exact Ca.
    + (* left alone: congruence *)
      pose proof (IHe1 Hl c) as I1. destruct (rw e1 c) as [o' c1] eqn:Ro. simpl in I1.
      pose proof (IHe2 Hr c1) as I2. destruct (rw e2 c1) as [a' c2] eqn:Ra. simpl in I2.
      assert (Hc1 : c <= c1) by (destruct (I1 h t); auto).
      assert (Hc2 : c1 <= c2) by (destruct (I2 h t); auto).
      destruct (src_tenv e1 Hl h t) as (o1 & h1 & E1).
      cbn [fst snd]. split; [lia|]. intros o h' E.
      destruct (I1 h t) as (_ & K1). destruct (K1 o1 h1 E1) as (t1 & El & F1).
      rewrite eval_optm1, El. specialize (E t). rewrite eval_optm1, E1 in E.
      destruct o1 as [vo|vo]; cbn [bind] in *; [|inversion E; subst o h'; eexists; split; [reflexivity|frame_tac]].
      destruct (nullish vo) eqn:NV; [inversion E; subst o h'; eexists; split; [reflexivity|frame_tac]|].
      destruct (respond h1 (EvGet vo m)) as [vf|vf] eqn:RG.
      2:{ rewrite (fire_thr t RG) in E. rewrite (fire_thr t1 RG). cbn [bind] in *. inversion E; subst o h'. eexists; split; [reflexivity|frame_tac]. }
      rewrite (fire_ret t RG) in E. rewrite (fire_ret t1 RG). cbn [bind] in *.
      destruct (src_tenv e2 Hr (h1 ++ [EvGet vo m]) t) as (o2 & h2 & E2).
      destruct (I2 (h1 ++ [EvGet vo m]) t1) as (_ & K2). destruct (K2 o2 h2 E2) as (t2 & Er & F2).
      rewrite Er. rewrite E2 in E.
      destruct o2 as [va|va]; cbn [bind] in *; [|inversion E; subst o h'; eexists; split; [reflexivity|frame_tac]].
      destruct (respond h2 (EvCallT vf vo [va])) eqn:RC;
        [rewrite (fire_ret t RC) in E; rewrite (fire_ret t2 RC) | rewrite (fire_thr t RC) in E; rewrite (fire_thr t2 RC)];
        inversion E; subst o h'; eexists; (split; [reflexivity|frame_tac]).
  - (* o[k] += e : a computed key *)
    destruct Hs as (Ho & Hk & He).
    pose proof (IHe1 Ho c) as I1. pose proof (rw_inplace_src e1 c Ho) as P1.
    rewrite rw_addasgc_eq. destruct (rw e1 c) as [o' c1] eqn:Ro. simpl in I1, P1.
    pose proof (IHe2 Hk c1) as I2. pose proof (rw_inplace_src e2 c1 Hk) as P2.
    destruct (rw e2 c1) as [k' c2] eqn:Rk. simpl in I2, P2.
    pose proof (IHe3 He c2) as I3. pose proof (rw_inplace_src e3 c2 He) as P3.
    destruct (rw e3 c2) as [e' c3] eqn:Re. simpl in I3, P3.
    assert (Hc1 : c <= c1) by (destruct (I1 h t); auto).
    assert (Hc2 : c1 <= c2) by (destruct (I2 h t); auto).
    assert (Hc3 : c2 <= c3) by (destruct (I3 h t); auto).
    (* what the source does once object and key are known *)
    set (tail := fun (vo vk : value) (s2 : st) =>
           bind (fire respond (EvGetV vo vk) s2) (fun v1 s3 =>
           bind (eval e3 s3) (fun v2 s4 => bind (do_add respond v1 v2 s4) (fun r s5 =>
           bind (fire respond (EvSetV vo vk r) s5) (fun _ s6 => (Ret r, s6)))))).
    assert (TAIL : forall vo vk v1 v2 (hX : hist) (tA tB tC : tenv) o h' lo hi,
               bind (do_add respond v1 v2 (hX, tA)) (fun r s4 => bind (fire respond (EvSetV vo vk r) s4) (fun _ s5 => (Ret r, s5))) = (o, (h', tA)) ->
               frame lo hi tC tB ->
               exists t', bind (do_add respond v1 v2 (hX, tB)) (fun r s2 => bind (fire respond (EvSetV vo vk r) s2) (fun _ s3 => (Ret r, s3))) = (o, (h', t')) /\ frame lo hi tC t').
    { intros vo vk v1 v2 hX tA tB tC o h' lo hi E F.
      destruct (do_add_tenv v1 v2 hX) as (o3 & h4 & E3). rewrite E3 in *.
      destruct o3 as [r|r]; cbn [bind] in *; [|inversion E; subst; eexists; split; [reflexivity | exact F]].
      destruct (fire_tenv (EvSetV vo vk r) h4) as (o4 & h5 & E4). rewrite E4 in *.
      destruct o4 as [w|w]; cbn [bind] in *; inversion E; subst; eexists; (split; [reflexivity | exact F]). }
    (* the assignment built on a target whose object and key are stable reads *)
    assert (CORE : forall ob kb c5 sum c6 vo vk (hK : hist) (t5 : tenv) o h',
               rw_add (GetC ob kb) (group_sum e') c5 = (sum, c6) -> c3 <= c5 ->
               (forall t'' : tenv, (forall n, n < c5 -> t'' n = t5 n) ->
                  eval ob (hK, t'') = (Ret vo, (hK, t'')) /\ eval kb (hK, t'') = (Ret vk, (hK, t''))) ->
               (forall t2 : tenv, tail vo vk (hK, t2) = (o, (h', t2))) ->
               exists t', eval (AsgC ob kb sum) (hK, t5) = (o, (h', t')) /\ frame c2 c6 t5 t').
    { intros ob kb c5 sum c6 vo vk hK t5 o h' RA L5 ST E. unfold rw_add in RA. cbn [left_act fst snd app] in RA.
      destruct (ST t5 ltac:(auto)) as [SO SK].
      destruct (is_triv (group_sum e')) eqn:TR.
      - (* ob[kb] = (t = ob[kb], hook(t + e, t, e)) *)
        destruct (group_sum_triv _ TR) as [GS TE]. rewrite GS in *.
        destruct (P3 (or_introl TE)) as [Q3 IP3]. inversion Q3; subst e' c3.
        rewrite (@right_act_triv (GetC ob kb) e3 ltac:(intros; discriminate) TE) in RA.
        cbn [app forallb is_lit andb fst snd wrap] in RA. inversion RA; subst sum c6.
        specialize (E t5). unfold tail in E.
        rewrite eval_asgc, SO. cbn [bind]. rewrite SK. cbn [bind].
        rewrite eval_hoist1, eval_getc, SO. cbn [bind]. rewrite SK. cbn [bind].
        destruct (fire_tenv (EvGetV vo vk) hK) as (og & hg & EG). rewrite EG in *.
        destruct og as [v1|v1]; cbn [bind fst snd] in *; [|inversion E; subst o h'; eexists; split; [reflexivity|frame_tac]].
        rewrite hook_pure by (repeat constructor; [apply pure_tmp | apply pure_inplace; exact IP3]).
        rewrite eval_add, eval_tmp. cbn [bind fst snd]. rewrite upd_same.
        destruct (src_tenv e3 He hg t5) as (o3 & h3 & E3). rewrite E3 in *.
        destruct o3 as [v2|v2]; cbn [bind] in *; [|inversion E; subst o h'; eexists; split; [reflexivity|frame_tac]].
        eapply TAIL; [exact E | frame_tac].
      - (* ob[kb] = (t = ob[kb], t' = e', hook(t + t', t, t')) *)
        rewrite (@right_act_grouped (GetC ob kb) e' ltac:(intros; discriminate) TR) in RA.
        cbn [app forallb is_lit andb fst snd wrap] in RA. inversion RA; subst sum c6.
        specialize (E t5). unfold tail in E.
        rewrite eval_asgc, SO. cbn [bind]. rewrite SK. cbn [bind].
        rewrite eval_hoist2, eval_getc, SO. cbn [bind]. rewrite SK. cbn [bind].
        destruct (fire_tenv (EvGetV vo vk) hK) as (og & hg & EG). rewrite EG in *.
        destruct og as [v1|v1]; cbn [bind fst snd] in *; [|inversion E; subst o h'; eexists; split; [reflexivity|frame_tac]].
        destruct (src_tenv e3 He hg t5) as (o3 & h3 & E3). rewrite E3 in E.
        destruct (I3 hg (upd t5 c5 v1)) as (_ & K3). destruct (K3 o3 h3 E3) as (t3 & Er & F3).
        rewrite eval_group_sum, Er.
        destruct o3 as [v2|v2]; cbn [bind fst snd] in *; [|inversion E; subst o h'; eexists; split; [reflexivity|frame_tac]].
        rewrite hook_pure by (repeat constructor; apply pure_tmp).
        rewrite eval_add. step_eval. rewrite upd_same.
        assert (Hv : upd t3 (S c5) v2 c5 = v1) by (rewrite upd_other by lia; rewrite F3 by lia; apply upd_same).
        rewrite Hv. eapply TAIL; [exact E | frame_tac]. }
    destruct (src_tenv e1 Ho h t) as (o1 & h1 & E1).
    unfold rw_addasg_c. cbv zeta.
    destruct (is_triv k') eqn:TK; cbn [negb].
    + (* the key stays: an identifier or a literal *)
      destruct (P2 (or_introl eq_refl)) as [Q2 IP2]. inversion Q2; subst k' c2.
      rewrite andb_true_r.
      destruct (is_lit o' || is_triv o') eqn:TO.
      * (* ... and so does the object: o[k] = (t = o[k], ...) *)
        assert (TO' : is_triv o' = true) by (destruct o'; simpl in TO |- *; try discriminate; reflexivity).
        destruct (P1 (or_introl TO')) as [Q1 IP1]. inversion Q1; subst o' c1.
        destruct (pure_inplace IP1 (h, t)) as (vo & Evo).
        assert (o1 = Ret vo /\ h1 = h) as [-> ->] by (pose proof (E1 t) as X; rewrite Evo in X; inversion X; auto).
        destruct (src_tenv e2 Hk h t) as (o2 & h2 & E2).
        destruct (pure_inplace IP2 (h, t)) as (vk & Evk).
        assert (o2 = Ret vk /\ h2 = h) as [-> ->] by (pose proof (E2 t) as X; rewrite Evk in X; inversion X; auto).
        cbn [app wrap].
        pose proof (rw_add_le (GetC e1 e2) (group_sum e') c3) as LE.
        destruct (rw_add (GetC e1 e2) (group_sum e') c3) as [sum c6] eqn:RA. cbn [fst snd] in LE |- *.
        split; [lia|]. intros o h' E.
        assert (SRC : forall t2 : tenv, tail vo vk (h, t2) = (o, (h', t2))).
        { intros t2. specialize (E t2). rewrite eval_addasgc, E1 in E. cbn [bind] in E. rewrite E2 in E. exact E. }
        destruct (CORE e1 e2 c3 sum c6 vo vk h t o h' RA ltac:(lia) (fun t'' _ => conj (E1 t'') (E2 t'')) SRC) as (t' & Ev & F).
        exists t'. split; [exact Ev | frame_tac].
      * (* the object is captured: (t0 = o', t0[k] = ...) *)
        cbn [app wrap].
        pose proof (rw_add_le (GetC (Tmp c3) e2) (group_sum e') (S c3)) as LE.
        destruct (rw_add (GetC (Tmp c3) e2) (group_sum e') (S c3)) as [sum c6] eqn:RA. cbn [fst snd] in LE |- *.
        split; [lia|]. intros o h' E.
        destruct (I1 h t) as (_ & K1). destruct (K1 o1 h1 E1) as (t1 & El & F1).
        rewrite eval_hoist1, El.
        destruct o1 as [vo|vo]; cbn [bind fst snd].
        2:{ specialize (E t). rewrite eval_addasgc, E1 in E. cbn [bind] in E. inversion E; subst o h'.
            eexists; split; [reflexivity|frame_tac]. }
        destruct (src_tenv e2 Hk h1 t) as (o2 & h2 & E2).
        destruct (pure_inplace IP2 (h1, t)) as (vk & Evk).
        assert (o2 = Ret vk /\ h2 = h1) as [-> ->] by (pose proof (E2 t) as X; rewrite Evk in X; inversion X; auto).
        assert (SRC : forall t2 : tenv, tail vo vk (h1, t2) = (o, (h', t2))).
        { intros t2. specialize (E t2). rewrite eval_addasgc, E1 in E. cbn [bind] in E. rewrite E2 in E. exact E. }
        destruct (CORE (Tmp c3) e2 (S c3) sum c6 vo vk h1 (upd t1 c3 vo) o h' RA ltac:(lia)) as (t' & Ev & F); [|exact SRC|].
        { intros t'' AG. split; [|apply E2]. rewrite eval_tmp. cbn [snd]. rewrite AG by lia. rewrite upd_same. reflexivity. }
        exists t'. split; [exact Ev | frame_tac].
    + (* the key is captured, and the object before it (a literal stays) *)
      rewrite andb_false_r, orb_false_r.
      destruct (is_lit o') eqn:LO.
      * (* 'lit'[k] += e: (t0 = k', 'lit'[t0] = ...) *)
        destruct (is_lit_inv _ LO) as (vo & ->).
        destruct (P1 (or_introl eq_refl)) as [Q1 _].
        assert (e1 = Lit vo /\ c1 = c) as [-> ->] by (inversion Q1; auto).
        assert (o1 = Ret vo /\ h1 = h) as [-> ->] by (pose proof (E1 t) as X; cbn in X; inversion X; auto).
        cbn [app wrap].
        pose proof (rw_add_le (GetC (Lit vo) (Tmp c3)) (group_sum e') (S c3)) as LE.
        destruct (rw_add (GetC (Lit vo) (Tmp c3)) (group_sum e') (S c3)) as [sum c6] eqn:RA. cbn [fst snd] in LE |- *.
        split; [lia|]. intros o h' E.
        destruct (src_tenv e2 Hk h t) as (o2 & h2 & E2).
        destruct (I2 h t) as (_ & K2). destruct (K2 o2 h2 E2) as (t2 & Ek & F2).
        rewrite eval_hoist1, Ek.
        destruct o2 as [vk|vk]; cbn [bind fst snd].
        2:{ specialize (E t). rewrite eval_addasgc, E1 in E. cbn [bind] in E. rewrite E2 in E. cbn [bind] in E. inversion E; subst o h'.
            eexists; split; [reflexivity|frame_tac]. }
        assert (SRC : forall t3 : tenv, tail vo vk (h2, t3) = (o, (h', t3))).
        { intros t3. specialize (E t3). rewrite eval_addasgc, E1 in E. cbn [bind] in E. rewrite E2 in E. exact E. }
        destruct (CORE (Lit vo) (Tmp c3) (S c3) sum c6 vo vk h2 (upd t2 c3 vk) o h' RA ltac:(lia)) as (t' & Ev & F); [|exact SRC|].
        { intros t'' AG. split; [reflexivity|]. rewrite eval_tmp. cbn [snd]. rewrite AG by lia. rewrite upd_same. reflexivity. }
        exists t'. split; [exact Ev | frame_tac].
      * (* (t0 = o', t1 = k', t0[t1] = ...) *)
        cbn [app wrap].
        pose proof (rw_add_le (GetC (Tmp c3) (Tmp (S c3))) (group_sum e') (S (S c3))) as LE.
        destruct (rw_add (GetC (Tmp c3) (Tmp (S c3))) (group_sum e') (S (S c3))) as [sum c6] eqn:RA. cbn [fst snd] in LE |- *.
        split; [lia|]. intros o h' E.
        destruct (I1 h t) as (_ & K1). destruct (K1 o1 h1 E1) as (t1 & El & F1).
        rewrite eval_hoist2, El.
        destruct o1 as [vo|vo]; cbn [bind fst snd].
        2:{ specialize (E t). rewrite eval_addasgc, E1 in E. cbn [bind] in E. inversion E; subst o h'.
            eexists; split; [reflexivity|frame_tac]. }
        destruct (src_tenv e2 Hk h1 t) as (o2 & h2 & E2).
        destruct (I2 h1 (upd t1 c3 vo)) as (_ & K2). destruct (K2 o2 h2 E2) as (t2 & Ek & F2).
        rewrite Ek.
        destruct o2 as [vk|vk]; cbn [bind fst snd].
        2:{ specialize (E t). rewrite eval_addasgc, E1 in E. cbn [bind] in E. rewrite E2 in E. cbn [bind] in E. inversion E; subst o h'.
            eexists; split; [reflexivity|frame_tac]. }
        assert (SRC : forall t3 : tenv, tail vo vk (h2, t3) = (o, (h', t3))).
        { intros t3. specialize (E t3). rewrite eval_addasgc, E1 in E. cbn [bind] in E. rewrite E2 in E. exact E. }
        destruct (CORE (Tmp c3) (Tmp (S c3)) (S (S c3)) sum c6 vo vk h2 (upd t2 (S c3) vk) o h' RA ltac:(lia)) as (t' & Ev & F); [|exact SRC|].
        { intros t'' AG. split; rewrite eval_tmp; cbn [snd]; rewrite AG by lia.
          - rewrite upd_other by lia. rewrite F2 by lia. rewrite upd_same. reflexivity.
          - rewrite upd_same. reflexivity. }
        exists t'. split; [exact Ev | frame_tac].
  - (* property read with a computed key: congruence *)
    destruct Hs as [Ho Hk].
    pose proof (IHe1 Ho c) as I1. cbn [Sem.rw]. destruct (rw e1 c) as [o' c1] eqn:Ro. simpl in I1.
    pose proof (IHe2 Hk c1) as I2. destruct (rw e2 c1) as [k' c2] eqn:Rk. simpl in I2.
    assert (Hc1 : c <= c1) by (destruct (I1 h t); auto).
    assert (Hc2 : c1 <= c2) by (destruct (I2 h t); auto).
    cbn [fst snd]. split; [lia|]. intros o h' E.
    destruct (src_tenv e1 Ho h t) as (o1 & h1 & E1).
    destruct (I1 h t) as (_ & K1). destruct (K1 o1 h1 E1) as (t1 & El & F1).
    rewrite eval_getc, El. specialize (E t). rewrite eval_getc, E1 in E.
    destruct o1 as [vo|vo]; cbn [bind fst snd] in *; [|inversion E; subst o h'; eexists; split; [reflexivity|frame_tac]].
    destruct (src_tenv e2 Hk h1 t) as (o2 & h2 & E2).
    destruct (I2 h1 t1) as (_ & K2). destruct (K2 o2 h2 E2) as (t2 & Ek & F2).
    rewrite Ek. rewrite E2 in E.
    destruct o2 as [vk|vk]; cbn [bind fst snd] in *; [|inversion E; subst o h'; eexists; split; [reflexivity|frame_tac]].
    destruct (fire_tenv (EvGetV vo vk) h2) as (o3 & h3 & E3). rewrite E3 in *.
    inversion E; subst o h'. eexists; split; [reflexivity|frame_tac].
Qed.

(** ** The expression at the root of the visitor.  The function the check ties to the code is [rw_root]: parentheses and
    property reads at the root are transparent -- what stands under them is a root again, numbered from 0 --, and so are
    the object and the key of a computed read.  With the plus operator configured everything else is [rw] from counter 0. *)
Theorem rw_root_correct e : src e -> forall (h : hist) (t : tenv) o h',
  (forall t2 : tenv, eval e (h, t2) = (o, (h', t2))) ->
  exists t', eval (rw_root instr lit_ok awc plus_on e) (h, t) = (o, (h', t')).
Proof.
  assert (D : forall e0, src e0 -> forall (h : hist) (t : tenv) o h',
              (forall t2 : tenv, eval e0 (h, t2) = (o, (h', t2))) ->
              exists t', eval (fst (rw e0 0)) (h, t) = (o, (h', t'))).
  { intros e0 Hs h t o h' E. destruct (rw_correct e0 Hs 0 h t) as (_ & K). destruct (K o h' E) as (t' & Ev & _). eauto. }
  assert (IP : forall (A : Type) (x y : A), (if plus_on then x else y) = x) by (intros; rewrite plus_true; reflexivity).
  induction e; intros Hs h t o h' E; cbn [rw_root]; try rewrite IP; try (apply D; assumption).
  - (* parentheses *)
    simpl in Hs. apply (IHe Hs h t o h'). exact E.
  - (* property read *)
    simpl in Hs. destruct (src_tenv e Hs h t) as (o1 & h1 & E1).
    destruct (IHe Hs h t o1 h1 E1) as (t1 & Ev).
    rewrite eval_get, Ev. specialize (E t). rewrite eval_get, E1 in E.
    destruct o1 as [vo|vo]; cbn [bind] in *; [|inversion E; subst; eauto].
    destruct (fire_tenv (EvGet vo m) h1) as (o2 & h2 & E2). rewrite E2 in *. inversion E; subst. eauto.
  - (* computed property read *)
    simpl in Hs. destruct Hs as [Ho Hk]. destruct (src_tenv e1 Ho h t) as (o1 & h1 & E1).
    destruct (IHe1 Ho h t o1 h1 E1) as (t1 & Ev1).
    rewrite eval_getc, Ev1. specialize (E t). rewrite eval_getc, E1 in E.
    destruct o1 as [vo|vo]; cbn [bind] in *; [|inversion E; subst; eauto].
    destruct (src_tenv e2 Hk h1 t) as (o2 & h2 & E2).
    destruct (IHe2 Hk h1 t1 o2 h2 E2) as (t2 & Ev2).
    rewrite Ev2. rewrite E2 in E.
    destruct o2 as [vk|vk]; cbn [bind] in *; [|inversion E; subst; eauto].
    destruct (fire_tenv (EvGetV vo vk) h2) as (o3 & h3 & E3). rewrite E3 in *. inversion E; subst. eauto.
Qed.


(** ** Assigned before read (C06 in the core semantics): what the rewritten expression does -- its outcome and the history it
    leaves -- does not depend on what the temporaries held when it started, from any counter value: every temporary it
    reads it has assigned before.  (A corollary of [rw_correct]: both runs are equal to the source's.) *)
Theorem rw_ignores_initial_temporaries e : src e -> forall c (h : hist) (t1 t2 : tenv),
  fst (eval (fst (rw e c)) (h, t1)) = fst (eval (fst (rw e c)) (h, t2)) /\
  fst (snd (eval (fst (rw e c)) (h, t1))) = fst (snd (eval (fst (rw e c)) (h, t2))).
Proof.
  intros Hs c h t1 t2. destruct (src_tenv e Hs h t1) as (o & h' & E).
  destruct (rw_correct e Hs c h t1) as (_ & K1). destruct (K1 o h' E) as (t1' & E1 & _).
  destruct (rw_correct e Hs c h t2) as (_ & K2). destruct (K2 o h' E) as (t2' & E2 & _).
  rewrite E1, E2. split; reflexivity.
Qed.

End Proofs.
