(** * Soundness of the binary rewriter in the core semantics (C01). *)
From Coq Require Import List String Arith Lia Bool.
From IastRw Require Import Sem.
Import ListNotations.
Set Implicit Arguments.

Section Proofs.
Variable respond : hist -> event -> resp.
Variable ustore  : hist -> string -> value.
Notation eval := (eval respond ustore).

Definition frame (lo hi : nat) (t t' : tenv) : Prop := forall n, n < lo \/ hi <= n -> t' n = t n.
Lemma frame_refl lo hi t : frame lo hi t t. Proof. firstorder. Qed.
Lemma upd_same t n v : upd t n v n = v. Proof. unfold upd; rewrite Nat.eqb_refl; auto. Qed.
Lemma upd_other t n m v : m <> n -> upd t n v m = t m.
Proof. unfold upd; intros; destruct (Nat.eqb_spec m n); congruence. Qed.

(* source expressions neither read nor write temporaries: same outcome/history under any temp store *)
Lemma src_tenv e : src e -> forall (h : hist) (t : tenv), exists o h', forall t2 : tenv, eval e (h, t2) = (o, (h', t2)).
Proof.
  induction e; simpl; try tauto; intros Hs h t.
  - eauto.
  - eauto.
  - destruct Hs as [Hl Hr].
    destruct (IHe1 Hl h t) as (o1 & h1 & E1).
    destruct o1 as [a|a]; [|exists (Thr a), h1; intros; rewrite E1; reflexivity].
    destruct (IHe2 Hr h1 t) as (o2 & h2 & E2).
    destruct o2 as [b|b]; [|exists (Thr b), h2; intros; rewrite E1; simpl; rewrite E2; reflexivity].
    destruct (respond h2 (EvAdd a b)) eqn:R;
    [exists (Ret v)|exists (Thr v)]; exists (h2 ++ [EvAdd a b]); intros; rewrite E1; simpl; rewrite E2; simpl; unfold fire; rewrite R; reflexivity.
  - destruct Hs as [Hl Hr].
    destruct (IHe1 Hl h t) as (o1 & h1 & E1).
    destruct o1 as [a|a]; [|exists (Thr a), h1; intros; rewrite E1; reflexivity].
    destruct (IHe2 Hr h1 t) as (o2 & h2 & E2).
    destruct o2 as [b|b]; [|exists (Thr b), h2; intros; rewrite E1; simpl; rewrite E2; reflexivity].
    destruct (respond h2 (EvCall a [b])) eqn:R;
    [exists (Ret v)|exists (Thr v)]; exists (h2 ++ [EvCall a [b]]); intros; rewrite E1; simpl; rewrite E2; simpl; unfold fire; rewrite R; reflexivity.
Qed.

Lemma triv_eval e : is_triv e = true -> forall h, exists v, forall t : tenv, eval e (h, t) = (Ret v, (h, t)).
Proof. destruct e; simpl; try discriminate; eauto. Qed.

Lemma rw_triv_src e c : src e -> is_triv (fst (rw e c)) = true -> rw e c = (e, c).
Proof.
  destruct e; simpl; try tauto; intros Hs.
  - destruct (rw e1 c) as [l' c1]; destruct (rw e2 c1) as [r' c2].
    destruct (is_triv l'), (is_triv r'); try destruct (is_lit l'); try destruct (is_lit r'); simpl; discriminate.
  - destruct (rw e1 c) as [l' c1]; destruct (rw e2 c1) as [r' c2]; simpl; discriminate.
Qed.

(* Main statement: same outcome, same history, and only temporaries of the allocated range are touched. *)
Definition correct (e : expr) : Prop := forall c h t,
  let e' := fst (rw e c) in let c' := snd (rw e c) in
  c <= c' /\
  forall o h', (forall t2 : tenv, eval e (h, t2) = (o, (h', t2))) ->
     exists t', eval e' (h, t) = (o, (h', t')) /\ frame c c' t t'.

Ltac frame_tac :=
  unfold frame in *; intros;
  repeat first
    [ match goal with |- context [upd _ ?n _ ?m] => rewrite (@upd_other _ n m _) by lia end
    | match goal with H : forall n, _ -> _ = _ |- _ => rewrite H by lia end ];
  auto.

Theorem rw_correct e : src e -> correct e.
Proof.
  induction e; simpl; try tauto; intros Hs; unfold correct; intros c h t; cbn zeta.
  - simpl. split; [lia|]. intros o h' E. exists t. split; [apply E|apply frame_refl].
  - simpl. split; [lia|]. intros o h' E. exists t. split; [apply E|apply frame_refl].
  - (* Add *)
    destruct Hs as [Hl Hr].
    pose proof (IHe1 Hl c) as I1. pose proof (rw_triv_src e1 c Hl) as P1.
    simpl. destruct (rw e1 c) as [l' c1] eqn:Rl. simpl in I1, P1.
    pose proof (IHe2 Hr c1) as I2. pose proof (rw_triv_src e2 c1 Hr) as P2.
    destruct (rw e2 c1) as [r' c2] eqn:Rr. simpl in I2, P2.
    assert (Hc1 : c <= c1) by (destruct (I1 h t); auto).
    assert (Hc2 : c1 <= c2) by (destruct (I2 h t); auto).
    destruct (src_tenv e1 Hl h t) as (o1 & h1 & E1).
    assert (SRC : forall t2 : tenv, eval (Add e1 e2) (h, t2) =
              bind (o1, (h1, t2)) (fun a s1 => bind (eval e2 s1) (fun b s2 => fire respond (EvAdd a b) s2)))
      by (intros; simpl; rewrite E1; reflexivity).
    destruct (is_triv l') eqn:Tl; destruct (is_triv r') eqn:Tr.
    + (* both kept in place *)
      specialize (P1 eq_refl); inversion P1; subst l' c1. specialize (P2 eq_refl); inversion P2; subst r' c2.
      destruct (triv_eval e1 Tl h) as (a & Ea). destruct (triv_eval e2 Tr h) as (b & Eb).
      destruct (is_lit e1 && is_lit e2); simpl.
      * split; [lia|]. intros o h' E. exists t. split; [apply E|apply frame_refl].
      * split; [lia|]. intros o h' E. exists t. split; [|apply frame_refl].
        specialize (E t). simpl in E. rewrite Ea in *; simpl in *. rewrite Eb in *; simpl in *.
        unfold fire in *. destruct (respond h (EvAdd a b)); simpl in *; inversion E; subst o h'; [|reflexivity].
        destruct (triv_eval e1 Tl (h ++ [EvAdd a b])) as (a2 & Ea2); rewrite Ea2; simpl.
        destruct (triv_eval e2 Tr (h ++ [EvAdd a b])) as (b2 & Eb2); rewrite Eb2; simpl. reflexivity.
    + (* left in place / right effectful *)
      specialize (P1 eq_refl); inversion P1; subst l' c1.
      destruct (triv_eval e1 Tl h) as (a & Ea).
      assert (o1 = Ret a /\ h1 = h) as [-> ->] by (specialize (E1 t); rewrite Ea in E1; inversion E1; auto).
      destruct (src_tenv e2 Hr h t) as (o2 & h2 & E2).
      destruct (is_lit e1) eqn:L1; simpl.
      * split; [lia|]. intros o h' E.
        destruct (I2 h t) as (_ & K2). destruct (K2 o2 h2 E2) as (t2 & Er & F2).
        rewrite Er. specialize (E t). rewrite E1 in E. simpl in E. rewrite E2 in E. simpl in E.
        destruct o2 as [b|b]; simpl in *.
        -- destruct e1; try discriminate. simpl in *. rewrite upd_same.
           pose proof (Ea t) as Ea0; inversion Ea0; subst v.
           unfold fire in *. destruct (respond h2 (EvAdd a b)); simpl in *; inversion E; subst o h';
           rewrite ?upd_same; simpl; eexists; (split; [reflexivity|frame_tac]).
        -- inversion E; subst o h'. eexists; split; [reflexivity|frame_tac].
      * split; [lia|]. intros o h' E. rewrite Ea. simpl.
        destruct (I2 h (upd t c2 a)) as (_ & K2). destruct (K2 o2 h2 E2) as (t2 & Er & F2).
        rewrite Er. specialize (E t). rewrite E1 in E. simpl in E. rewrite E2 in E. simpl in E.
        destruct o2 as [b|b]; simpl in *.
        -- rewrite upd_same.
           assert (Hk : upd t2 (S c2) b c2 = a).
           { rewrite upd_other by lia. rewrite F2 by lia. apply upd_same. }
           rewrite Hk. unfold fire in *. destruct (respond h2 (EvAdd a b)); simpl in *; inversion E; subst o h';
           rewrite ?Hk, ?upd_same; simpl; eexists; (split; [reflexivity|frame_tac]).
        -- inversion E; subst o h'. eexists; split; [reflexivity|frame_tac].
    + (* left hoisted / right in place *)
      specialize (P2 eq_refl); inversion P2; subst r' c2. cbn [fst snd].
      split; [lia|]. intros o h' E.
      destruct (I1 h t) as (_ & K1). destruct (K1 o1 h1 E1) as (t1 & El & F1).
      simpl. rewrite El. specialize (E t). rewrite E1 in E.
      destruct o1 as [a|a]; simpl in *.
      -- rewrite upd_same.
         destruct (triv_eval e2 Tr h1) as (b & Eb). rewrite Eb in *; simpl in *.
         unfold fire in *. destruct (respond h1 (EvAdd a b)); simpl in *; inversion E; subst o h';
         rewrite ?upd_same; simpl; [|eexists; (split; [reflexivity|frame_tac])].
         destruct (triv_eval e2 Tr (h1 ++ [EvAdd a b])) as (b2 & Eb2); rewrite Eb2; simpl.
         eexists; (split; [reflexivity|frame_tac]).
      -- inversion E; subst o h'. eexists; split; [reflexivity|frame_tac].
    + (* both hoisted *)
      cbn [fst snd]. split; [lia|]. intros o h' E.
      destruct (I1 h t) as (_ & K1). destruct (K1 o1 h1 E1) as (t1 & El & F1).
      simpl. rewrite El. specialize (E t). rewrite E1 in E.
      destruct o1 as [a|a]; simpl in *; [|inversion E; subst o h'; eexists; split; [reflexivity|frame_tac]].
      destruct (src_tenv e2 Hr h1 t) as (o2 & h2 & E2).
      destruct (I2 h1 (upd t1 c2 a)) as (_ & K2). destruct (K2 o2 h2 E2) as (t2 & Er & F2).
      rewrite Er. rewrite E2 in E. simpl in E.
      destruct o2 as [b|b]; simpl in *; [|inversion E; subst o h'; eexists; split; [reflexivity|frame_tac]].
      rewrite upd_same.
      assert (Hk : upd t2 (S c2) b c2 = a).
      { rewrite upd_other by lia. rewrite F2 by lia. apply upd_same. }
      rewrite Hk. unfold fire in *. destruct (respond h2 (EvAdd a b)); simpl in *; inversion E; subst o h';
      rewrite ?Hk, ?upd_same; simpl; eexists; (split; [reflexivity|frame_tac]).
  - (* CallE : congruence *)
    destruct Hs as [Hl Hr].
    pose proof (IHe1 Hl c) as I1. simpl. destruct (rw e1 c) as [l' c1] eqn:Rl. simpl in I1.
    pose proof (IHe2 Hr c1) as I2. destruct (rw e2 c1) as [r' c2] eqn:Rr. simpl in I2.
    assert (Hc1 : c <= c1) by (destruct (I1 h t); auto).
    assert (Hc2 : c1 <= c2) by (destruct (I2 h t); auto).
    cbn [fst snd]. split; [lia|]. intros o h' E.
    destruct (src_tenv e1 Hl h t) as (o1 & h1 & E1).
    destruct (I1 h t) as (_ & K1). destruct (K1 o1 h1 E1) as (t1 & El & F1).
    simpl. rewrite El. specialize (E t). simpl in E. rewrite E1 in E.
    destruct o1 as [a|a]; simpl in *; [|inversion E; subst o h'; eexists; split; [reflexivity|frame_tac]].
    destruct (src_tenv e2 Hr h1 t) as (o2 & h2 & E2).
    destruct (I2 h1 t1) as (_ & K2). destruct (K2 o2 h2 E2) as (t2 & Er & F2).
    rewrite Er. rewrite E2 in E. simpl in E.
    destruct o2 as [b|b]; simpl in *; [|inversion E; subst o h'; eexists; split; [reflexivity|frame_tac]].
    unfold fire in *. destruct (respond h2 (EvCall a [b])); simpl in *; inversion E; subst o h';
    eexists; (split; [reflexivity|frame_tac]).
Qed.

End Proofs.
