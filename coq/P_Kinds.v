(** * Root kinds: which node kinds the operation visitor can turn into which.
    A node keeps its kind unless it is one of the instrumented operations, in which case the
    result is a call, a parenthesised sequence, an assignment or a member expression.
    Consequence (C07, C08): statements stay statements of the same kind, string-literal
    expression statements (directives) stay exactly that, and nothing else becomes one. *)
From Coq Require Import String List NArith Bool Lia.
From IastRw Require Import Ast Generated Config Model P_OpVisit.
Import ListNotations.

(** Kinds the visitor neither consumes nor produces at the root of a visited node. *)
Definition neutral (k : kind) : bool :=
  match k with
  | KBin | KAssign | KTpl | KCall | KOptChain | KParen | KMember | KArrow => false
  | _ => true
  end.

(** The same without the optional-chain transformation (which may turn a chain into a member expression):
    the four transformations of the operation visitor never produce a member expression either. *)
Definition neutralM (k : kind) : bool :=
  match k with
  | KBin | KAssign | KTpl | KCall | KOptChain | KParen | KArrow => false
  | _ => true
  end.

Lemma neutral_M k : neutral k = true -> neutralM k = true.
Proof. destruct k; simpl; congruence. Qed.

Lemma is_kind_tag k a b : tag_of a = tag_of b -> is_kind k a = is_kind k b.
Proof. destruct a as [ta ca], b as [tb cb]; simpl; intros ->. reflexivity. Qed.

Lemma classify_kind n :
  match classify n with
  | OBlock => kind_of n = Some KBlock
  | OIdent => kind_of n = Some KIdent
  | OBin => kind_of n = Some KBin
  | OAssign => kind_of n = Some KAssign
  | OTpl => kind_of n = Some KTpl
  | OCall => kind_of n = Some KCall
  | OOptChain => kind_of n = Some KOptChain
  | OUnary => kind_of n = Some KUnary
  | OArrow => kind_of n = Some KArrow
  | OLeaf => True
  | OOther => True
  end.
Proof. destruct n as [[k lo hi| | | | | |] cs]; simpl; auto. destruct k; simpl; auto. Qed.

Lemma is_kind_of k n k' : kind_of n = Some k' -> is_kind k n = kind_eqb k k'.
Proof. unfold is_kind. intros ->. reflexivity. Qed.

Lemma kind_eqb_neq k k' : k <> k' -> kind_eqb k k' = false.
Proof. unfold kind_eqb. destruct (kind_eq_dec k k'); [contradiction | reflexivity]. Qed.

Ltac neutral_neq :=
  match goal with
  | H : neutral ?k = true |- kind_eqb ?k ?k' = false =>
      apply kind_eqb_neq; intro; subst k; discriminate H
  | H : neutralM ?k = true |- kind_eqb ?k ?k' = false =>
      apply kind_eqb_neq; intro; subst k; discriminate H
  end.

Lemma dd_paren_kind e a m sp :
  kind_of (dd_paren e a m sp) = Some KCall \/ kind_of (dd_paren e a m sp) = Some KParen.
Proof. unfold dd_paren. destruct (a_assigns a); [left | right]; reflexivity. Qed.

Lemma dd_paren_neutral k e a m sp : neutralM k = true -> is_kind k (dd_paren e a m sp) = false.
Proof.
  intros H. destruct (dd_paren_kind e a m sp) as [E|E]; rewrite (is_kind_of _ _ _ E); neutral_neq.
Qed.

Section Steps.
  Variable c : config.
  Variable k : kind.
  Hypothesis Hk : neutralM k = true.

  Lemma binary_transform_neutral e p e' p' :
    binary_transform c e p = (Some e', p') -> is_kind k e' = false.
  Proof.
    unfold binary_transform. destruct e as [[kk lo hi| | | | | |] cs]; try discriminate.
    destruct kk; try discriminate.
    destruct cs as [|opn [|l [|r [|? ?]]]]; try discriminate.
    destruct (replace_expr c l (get_ident_mode r) (lo, hi) IKExpr false acc0 p) as [[l' a1] p1].
    destruct (replace_expr c r (get_ident_mode l') (lo, hi) IKExpr false a1 p1) as [[r' a2] p2].
    destruct (existsb arg_is_nonlit (a_args a2)); [|discriminate].
    intros H; inversion H; subst. apply dd_paren_neutral. exact Hk.
  Qed.

  Lemma bin_step_neutral n1 s1 : is_kind k (fst (bin_step c n1 s1)) = is_kind k n1 \/
                                 is_kind k (fst (bin_step c n1 s1)) = false.
  Proof.
    unfold bin_step. destruct (is_op bin_op "+" n1); [|left; reflexivity].
    destruct (binary_transform c n1 (o_p s1)) as [[e'|] p2] eqn:E; simpl; [right | left; reflexivity].
    eapply binary_transform_neutral; exact E.
  Qed.

  Lemma assign_step_neutral n1 s1 : is_kind k (fst (assign_step c n1 s1)) = is_kind k n1 \/
                                    is_kind k (fst (assign_step c n1 s1)) = false.
  Proof.
    unfold assign_step. destruct (is_op assign_op "+=" n1); [|left; reflexivity].
    destruct (assign_transform c n1 (o_p s1)) as [[e'|] p2] eqn:E; simpl; [right | left; reflexivity].
    unfold assign_transform in E. destruct n1 as [[kk lo hi| | | | | |] cs]; try discriminate.
    destruct kk; try discriminate.
    destruct cs as [|opn [|l [|r [|? ?]]]]; try discriminate.
    destruct (is_pat_target l); [discriminate|].
    destruct (hoist_target c l (lo, hi) acc0 (o_p s1)) as [[lhs' hoisted] p0].
    destruct (binary_transform c _ p0) as [[b|] p1]; [|discriminate].
    inversion E; subst. destruct (a_assigns hoisted); unfold mk_assign, mk_paren, mk, is_kind; simpl; neutral_neq.
  Qed.

  Lemma tpl_step_neutral n1 s1 : is_kind k (fst (tpl_step c n1 s1)) = is_kind k n1 \/
                                 is_kind k (fst (tpl_step c n1 s1)) = false.
  Proof.
    unfold tpl_step. destruct (template_transform c n1 (o_p s1)) as [[e'|] p2] eqn:E; simpl; [right | left; reflexivity].
    unfold template_transform in E. destruct n1 as [[kk lo hi| | | | | |] cs]; try discriminate.
    destruct kk; try discriminate.
    destruct cs as [|[[| | | | | |] es] [|q [|? ?]]]; try discriminate.
    destruct (tpl_replace c es acc0 (o_p s1)) as [[es' a] p1].
    inversion E; subst. apply dd_paren_neutral. exact Hk.
  Qed.

  Lemma replace_with_member_neutral recv method mspan call mo coa p e' tag p' :
    replace_with_member c recv method mspan call mo coa p = (Some (e', tag), p') -> is_kind k e' = false.
  Proof.
    unfold replace_with_member. destruct (csi_get c method); [|discriminate].
    destruct (get_temporal c recv (span_of call) IKExpr acc0 p) as [[id_opt a1] p1].
    destruct (get_ident c _ (span_of call) IKExpr a1 p1) as [[callee_opt a2] p2].
    destruct (replace_callee_and_args c call _ coa _ p2) as [[call' a4] p4].
    intros H; inversion H; subst. apply dd_paren_neutral. exact Hk.
  Qed.

  Lemma replace_spread_neutral method call member coa p e' tag p' :
    replace_spread_with_member c method call member coa p = (Some (e', tag), p') -> is_kind k e' = false.
  Proof.
    unfold replace_spread_with_member. destruct (csi_get c method); [|discriminate].
    destruct (get_ident c member (span_of call) IKExpr acc0 p) as [[callee_opt a1] p1].
    destruct callee_opt; [|discriminate].
    destruct (replace_callee_and_args c call _ _ a1 p1) as [[call' a2] p2].
    intros H; inversion H; subst. apply dd_paren_neutral. exact Hk.
  Qed.

  Lemma replace_without_callee_neutral callee call p e' tag p' :
    replace_without_callee c callee call p = (Some (e', tag), p') -> is_kind k e' = false.
  Proof.
    unfold replace_without_callee. destruct (ident_sym callee); [|discriminate].
    destruct (csi_get c s); [|discriminate]. destruct (m_awc c0); [|discriminate].
    destruct (replace_callee_and_args c call None None _ p) as [[call' a1] p1].
    intros H; inversion H; subst. apply dd_paren_neutral. exact Hk.
  Qed.

  Lemma call_transform_neutral call p e' tag p' :
    call_transform c call p = (Some (e', tag), p') -> is_kind k e' = false.
  Proof.
    unfold call_transform. destruct (call_parts call) as [[[[cx callee] args] targs]|]; [|discriminate].
    destruct (member_parts callee) as [[obj prop]|].
    - destruct (ident_name_sym prop) as [name|]; [|discriminate].
      destruct (is_lit obj).
      + destruct (allows_literal_callers c name); [apply replace_with_member_neutral | discriminate].
      + destruct (receiver_kind_ok obj); [apply replace_with_member_neutral|].
        destruct (is_kind KMember obj); [|discriminate].
        destruct (is_call_or_apply name).
        * unfold replace_prototype. destruct (prototype_parts c call obj name);
            [discriminate | apply replace_spread_neutral | apply replace_with_member_neutral].
        * destruct (negb (member_prop_is_prototype obj)); [apply replace_with_member_neutral | discriminate].
    - destruct (is_ident callee); [apply replace_without_callee_neutral | discriminate].
  Qed.

  Lemma call_step_neutral n1 s1 : is_kind k (fst (call_step c n1 s1)) = is_kind k n1 \/
                                  is_kind k (fst (call_step c n1 s1)) = false.
  Proof.
    unfold call_step. destruct (callee_is_expr n1); [|left; reflexivity].
    destruct (call_transform c n1 (o_p s1)) as [[[e' tag]|] p2] eqn:E; simpl; [right | left; reflexivity].
    eapply call_transform_neutral; exact E.
  Qed.

End Steps.

Section Kinds.
  Variable c : config.
  Variable k : kind.
  Hypothesis Hk : neutral k = true.
  Let HkM : neutralM k = true := neutral_M k Hk.

  (** The optional-chain visitor: the root stays what it was or becomes a call / member. *)
  Lemma oc_visit_neutral : forall fuel n s n' s',
    oc_visit c fuel n s = Some (n', s') -> is_kind k n' = is_kind k n \/ is_kind k n' = false.
  Proof.
    induction fuel as [|f IH]; intros n s n' s' H; [discriminate|].
    cbn [oc_visit] in H.
    set (spine := fun (n : node) (s : ocstate) =>
      match n with
      | Node (K KOptChain lo hi) [opt; Node (K KCall clo chi) [cx; callee; args; targs]] =>
          match oc_visit c f callee s with
          | Some (callee', s') =>
              Some (Node (K KOptChain lo hi) [opt; Node (K KCall clo chi) [cx; callee'; args; targs]], s')
          | None => None
          end
      | Node (K KOptChain lo hi) [opt; Node (K KMember mlo mhi) [obj; prop]] =>
          match oc_visit c f obj s with
          | Some (obj', s') =>
              Some (Node (K KOptChain lo hi) [opt; Node (K KMember mlo mhi) [obj'; prop]], s')
          | None => None
          end
      | Node (K KCall lo hi) [cx; callee; args; targs] =>
          if is_kind KSuper callee || is_kind KImport callee then Some (n, s)
          else
            match oc_visit c f callee s with
            | Some (callee', s') => Some (Node (K KCall lo hi) [cx; callee'; args; targs], s')
            | None => None
            end
      | Node (K KMember lo hi) [obj; prop] =>
          match oc_visit c f obj s with
          | Some (obj', s') => Some (Node (K KMember lo hi) [obj'; prop], s')
          | None => None
          end
      | _ => Some (n, s)
      end) in *.
    assert (SP : forall x sx x' sx', spine x sx = Some (x', sx') -> tag_of x' = tag_of x).
    { intros x sx x' sx' E. unfold spine in E.
      repeat match type of E with
             | match ?d with _ => _ end = _ => destruct d; try discriminate
             | (if ?d then _ else _) = _ => destruct d
             end; inversion E; subst; reflexivity. }
    destruct (optchain_parts n) as [[optional base]|] eqn:Ep.
    - destruct (oc_found s).
      + destruct (if is_kind KCall base then oc_call_from_base c base optional s
                  else oc_member_from_base c base optional s) as [repl s1] eqn:Er.
        assert (R : is_kind k (match repl with Some r => r | None => n end) = is_kind k n \/
                    is_kind k (match repl with Some r => r | None => n end) = false).
        { destruct repl as [r|]; [right | left; reflexivity].
          destruct (is_kind KCall base).
          - unfold oc_call_from_base in Er.
            destruct base as [[kk lo hi| | | | | |] bcs]; try discriminate.
            destruct kk; try discriminate.
            destruct bcs as [|cx [|callee [|[[| | | | | |] args] [|targs [|? ?]]]]]; try discriminate.
            destruct optional.
            + destruct (oc_callee_member callee) as [[[obj prop] mopt]|].
              * destruct (oc_get_ident c obj s) as [[oid|] s1']; [|discriminate].
                destruct (oc_get_ident c _ s1') as [[mid|] s2']; [|discriminate].
                inversion Er; subst. unfold mk, is_kind; simpl. neutral_neq.
              * destruct (oc_get_ident c callee s) as [[nid|] s1']; [|discriminate].
                destruct (oc_assigns s1'); [discriminate|].
                destruct (is_kind KSuperProp _);
                  inversion Er; subst; unfold mk, is_kind; simpl; neutral_neq.
            + inversion Er; subst. unfold mk, is_kind; simpl. neutral_neq.
          - unfold oc_member_from_base in Er.
            destruct base as [[kk lo hi| | | | | |] bcs]; try discriminate.
            destruct kk; try discriminate.
            destruct bcs as [|obj [|prop [|? ?]]]; try discriminate.
            destruct optional.
            + destruct (oc_get_ident c obj s) as [[nid|] s1']; [|discriminate].
              inversion Er; subst. unfold mk_member, mk, is_kind; simpl. neutral_neq.
            + inversion Er; subst. unfold is_kind; simpl. neutral_neq. }
        destruct optional.
        * inversion H; subst. exact R.
        * apply SP in H. rewrite (is_kind_tag k _ _ H). exact R.
      + destruct (oc_is_target c n).
        * eapply IH; exact H.
        * apply SP in H. left. apply is_kind_tag. exact H.
    - apply SP in H. left. apply is_kind_tag. exact H.
  Qed.

  Lemma optchain_transform_neutral fuel e p e' md p' :
    optchain_transform c fuel e p = Some (e', md, p') -> is_kind k e' = is_kind k e \/ is_kind k e' = false.
  Proof.
    unfold optchain_transform.
    destruct (oc_visit c fuel e _) as [[e1 s]|] eqn:E; [|discriminate].
    destruct (oc_assigns s) as [|a0 al].
    - intros H; inversion H; subst. eapply oc_visit_neutral; exact E.
    - destruct (oc_new_ident s).
      + intros H; inversion H; subst. right. unfold mk_paren, mk, is_kind; simpl. neutral_neq.
      + intros H; inversion H; subst. eapply oc_visit_neutral; exact E.
  Qed.

  (** Main statement: for a neutral kind [k], a node is of kind [k] after the visit iff it was before. *)
  Theorem op_visit_neutral : forall fuel root n s n' s',
    op_visit c fuel root n s = Some (n', s') -> is_kind k n' = is_kind k n.
  Proof.
    induction fuel as [|f IH]; intros root n s n' s' H; [discriminate|].
    assert (D : forall r x sx x' sx', default_visit_with (op_visit c f r) x sx = Some (x', sx') ->
                                      is_kind k x' = is_kind k x).
    { intros r x sx x' sx' E. apply is_kind_tag. eapply default_visit_tag; exact E. }
    assert (NK : forall kk, kind_of n = Some kk -> neutral kk = false -> is_kind k n = false).
    { intros kk E1 E2. rewrite (is_kind_of _ _ _ E1). apply kind_eqb_neq. intro; subst kk. congruence. }
    cbn [op_visit] in H. pose proof (classify_kind n) as CK. destruct (classify n).
    - inversion H; reflexivity.
    - inversion H; reflexivity.
    - destruct (plus_enabled c); [|eapply D; exact H].
      destruct (default_visit_with (op_visit c f false) n s) as [[n1 s1]|] eqn:E; [|discriminate].
      inversion H; subst. apply D in E.
      rewrite (NK _ CK eq_refl) in *. destruct (bin_step_neutral c k HkM n1 s1) as [X|X]; congruence.
    - destruct (plus_enabled c); [|eapply D; exact H].
      destruct (default_visit_with (op_visit c f false) n s) as [[n1 s1]|] eqn:E; [|discriminate].
      inversion H; subst. apply D in E.
      rewrite (NK _ CK eq_refl) in *. destruct (assign_step_neutral c k HkM n1 s1) as [X|X]; congruence.
    - destruct (tpl_enabled c); [|eapply D; exact H].
      destruct (tpl_instrumentable n); [|inversion H; reflexivity].
      destruct (default_visit_with (op_visit c f false) n s) as [[n1 s1]|] eqn:E; [|discriminate].
      inversion H; subst. apply D in E.
      rewrite (NK _ CK eq_refl) in *. destruct (tpl_step_neutral c k HkM n1 s1) as [X|X]; congruence.
    - destruct (default_visit_with (op_visit c f false) n s) as [[n1 s1]|] eqn:E; [|discriminate].
      inversion H; subst. apply D in E.
      rewrite (NK _ CK eq_refl) in *. destruct (call_step_neutral c k HkM n1 s1) as [X|X]; congruence.
    - destruct (optchain_transform c f n (o_p s)) as [[[n1 md] p1]|] eqn:E; [|discriminate].
      destruct (struct_level_with c (op_visit c f false) n1 (o_with_p p1 s)) as [[n2 s3]|] eqn:E2; [|discriminate].
      inversion H; subst.
      assert (T : is_kind k n' = is_kind k n1).
      { unfold struct_level_with in E2. destruct (classify n1); try (inversion E2; reflexivity);
          (eapply D; exact E2). }
      rewrite T. rewrite (NK _ CK eq_refl).
      destruct (optchain_transform_neutral _ _ _ _ _ _ E) as [X|X]; [|exact X].
      rewrite X. apply (NK _ CK eq_refl).
    - destruct (is_op unary_op "delete" n); [inversion H; reflexivity | eapply D; exact H].
    - inversion H; subst. unfold arrow_transform.
      destruct n as [[kk lo hi| | | | | |] cs]; try reflexivity. destruct kk; try reflexivity.
      destruct cs as [|cx [|params [|body [|asy [|gen [|tp [|rt [|? ?]]]]]]]]; try reflexivity.
      destruct (is_kind KBlock body); reflexivity.
    - inversion H; reflexivity.
    - eapply D; exact H.
  Qed.
End Kinds.
