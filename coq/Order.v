(** * C01 -- evaluation order of the injected sequences (specification side, on an OUTPUT tree).

    An instrumented operation is printed as [(t1 = e1, ..., tn = en, hook(op, args))].  The hoisted
    operands are evaluated in assignment order, then [op] reads the temporaries, the kept
    identifiers and the literals.  Reading the source order off [op] (operands left to right; for
    [F.call(T, ..)] / [F.apply(T, ..)]: T, F, then the arguments), [order_issues] reports
    - ["assignments-out-of-order"]  the temporaries are not assigned in the order in which the
        operands they stand for occur in the operation ([T] and [F] of a call may come in either
        order when [F]'s expression is a static path, that order being exempt);
    - ["kept-identifier-before-effect"]  an identifier left in place is followed, in source order,
        by a hoisted operand whose expression is more than an identifier / literal / [this]: the
        identifier is now read after that expression was evaluated;
    - ["this-before-nonstatic-path"]  [F]'s expression is not a static path and is evaluated after [T]. *)
From Coq Require Import String List NArith Bool.
From IastRw Require Import Ast Generated HookSites Erase.
Import ListNotations.
Local Open Scope string_scope.
Local Open Scope list_scope.

Definition inert (e : node) : bool := is_lit e || is_ident e || is_kind KThis e.

Fixpoint static_path (e : node) : bool :=
  match e with
  | Node (K KIdent _ _) _ => true
  | Node (K KThis _ _) _ => true
  | Node (K KMember _ _) [obj; Node (K KIdentName _ _) _] => static_path obj
  | _ => false
  end.

(** Operand expressions of an operation in source evaluation order; for calls the pair (T, F) first. *)
Definition arg_exprs (args : list node) : list node :=
  flat_map (fun a => match a with
                     | Node Obj [_; Node (K KArray _ _) [Node Lst elems]] =>
                         (* apply(T, [x1 .. xk]) *)
                         flat_map (fun el => match arg_expr el with Some e => [e] | None => [] end) elems
                     | _ => match arg_expr a with Some e => [e] | None => [] end
                     end) args.

Definition plain_arg_exprs (args : list node) : list node :=
  flat_map (fun a => match arg_expr a with Some e => [e] | None => [] end) args.

Inductive op_view :=
| OpOperands (es : list node)                      (* + and templates *)
| OpCall (f t : node) (rest : list node)           (* F.call(T, rest) / F.apply(T, [rest]) *)
| OpBare (f : node) (rest : list node)
| OpUnknown.

Definition view_op (op : node) : op_view :=
  match op with
  | Node (K KBin _ _) [_; l; r] => OpOperands [l; r]
  | Node (K KTpl _ _) [Node Lst es; _] => OpOperands es
  | Node (K KCall _ _) [_; Node (K KMember _ _) [f; prop]; Node Lst (this :: rest); _] =>
      match ident_name_sym prop, arg_expr this with
      | Some "call", Some t => OpCall f t (plain_arg_exprs rest)
      | Some "apply", Some t => OpCall f t (arg_exprs rest)
      | _, _ => OpUnknown
      end
  | Node (K KCall _ _) [_; f; Node Lst args; _] => if is_ident f then OpBare f (plain_arg_exprs args) else OpUnknown
  | _ => OpUnknown
  end.

Definition temp_name_of (vp : string) (e : node) : option string :=
  match e with
  | Node (K KArray _ _) _ => None
  | _ => is_temp_ident vp e
  end.

Definition temps_of (vp : string) (es : list node) : list string :=
  flat_map (fun e => match is_temp_ident vp e with Some t => [t] | None => [] end) es.

Fixpoint dedup_str (seen : list string) (l : list string) : list string :=
  match l with
  | [] => []
  | x :: r => if existsb (String.eqb x) seen then dedup_str seen r else x :: dedup_str (x :: seen) r
  end.

Fixpoint list_str_eqb (a b : list string) : bool :=
  match a, b with
  | [], [] => true
  | x :: a', y :: b' => String.eqb x y && list_str_eqb a' b'
  | _, _ => false
  end.

(** Kept identifiers followed by an effectful hoisted operand. *)
Fixpoint kept_before_effect (vp : string) (asg : list (string * node)) (es : list node) : bool :=
  match es with
  | [] => false
  | e :: rest =>
      (match is_temp_ident vp e with
       | Some _ => false
       | None =>
           is_ident e &&
           existsb (fun later => match is_temp_ident vp later with
                                 | Some t => match assoc_str t asg with
                                             | Some rhs => negb (inert (clean_rhs rhs))
                                             | None => false
                                             end
                                 | None => false
                                 end) rest
       end) || kept_before_effect vp asg rest
  end.

(** All temporaries read by [op], in the order in which [op] reads them (pre-order = left to right). *)
Fixpoint temps_preorder (vp : string) (n : node) : list string :=
  match is_temp_ident vp n with
  | Some t => [t]
  | None =>
      match n with
      | Node _ cs =>
          (fix go (l : list node) : list string :=
             match l with [] => [] | x :: l' => temps_preorder vp x ++ go l' end) cs
      end
  end.

Definition seq_order_issues (vp : string) (asg : list (string * node)) (op : node) : list string :=
  let assigned := map fst asg in
  let keep l := filter (fun x => existsb (String.eqb x) assigned) l in
  (* the order in which the operation reads the temporaries is the order in which the source
     evaluated the operands they stand for *)
  let natural := keep (dedup_str [] (temps_preorder vp op)) in
  match view_op op with
  | OpOperands es =>
      (if list_str_eqb natural assigned then [] else ["assignments-out-of-order"]) ++
      (if kept_before_effect vp asg es then ["kept-identifier-before-effect"] else [])
  | OpCall f t rest =>
      (* source order is F, T, arguments; T before F is the exempt order, for a static F only *)
      let tf := temps_of vp [t] in
      let ff := temps_of vp [f] in
      let swapped := keep (dedup_str [] (tf ++ ff ++ temps_preorder vp op)) in
      let f_rhs := match is_temp_ident vp f with Some x => assoc_str x asg | None => None end in
      let f_static := match f_rhs with
                      | Some (Node (K KMember _ _) [obj; _]) =>
                          match is_temp_ident vp obj with Some _ => true | None => static_path obj end
                      | Some other => static_path other
                      | None => true
                      end in
      (if list_str_eqb natural assigned then []
       else if list_str_eqb swapped assigned then (if f_static then [] else ["this-before-nonstatic-path"])
       else ["assignments-out-of-order"]) ++
      (if kept_before_effect vp asg (t :: rest) then ["kept-identifier-before-effect"] else [])
  | OpBare f rest =>
      (if list_str_eqb natural assigned then [] else ["assignments-out-of-order"]) ++
      (if kept_before_effect vp asg rest then ["kept-identifier-before-effect"] else [])
  | OpUnknown => []
  end.

Fixpoint order_issues (vp : string) (n : node) : list string :=
  (match n with
   | Node (K KParen _ _) [Node (K KSeq _ _) [Node Lst es]] =>
       match split_injected vp es with
       | Some ((_ :: _) as asg, last) =>
           match hook_call last with
           | Some (_, a0 :: _) => match arg_expr a0 with Some op => seq_order_issues vp asg op | None => [] end
           | _ => []
           end
       | _ => []
       end
   | Node (K KCall _ _) _ =>
       (* a bare hook call (nothing hoisted): every operand was kept in place *)
       []
   | _ => []
   end) ++
  match n with
  | Node _ cs =>
      (fix go (l : list node) : list string :=
         match l with [] => [] | c :: l' => order_issues vp c ++ go l' end) cs
  end.
