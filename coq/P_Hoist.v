(** * The member target of a compound assignment: what is hoisted, and in which order
    (finding 17m).  JavaScript reads the object of [o[k] += e] before it evaluates the key: when the
    key goes into a temporary, the object -- whatever it is, unless it is a literal -- goes first. *)
From Coq Require Import String List NArith Bool Lia.
From IastRw Require Import Ast Generated Config Model.
Import ListNotations.
Local Open Scope string_scope.
Local Open Scope list_scope.

(** What [get_temporal] pushes for a non-literal operand: one assignment [tmp = operand], after everything
    pushed before; the temporary it returns is the left-hand side of that assignment. *)
Lemma get_temporal_pushes c e span a p id a' p' :
  get_temporal c e span IKExpr a p = (id, a', p') -> is_lit e = false ->
  exists t, id = Some (mk_ident DUMMY t) /\
            a_assigns a' = a_assigns a ++ [mk_assign span "=" (mk_binding_ident DUMMY t) (assign_right e IKExpr)] /\ a_args a' = a_args a.
Proof.
  unfold get_temporal. intros H L. rewrite L in H. destruct (next_ident p) as [n p1].
  inversion H; subst. exists (temp_name c n). repeat split; reflexivity.
Qed.

Lemma key_hoisted_computed prop : key_hoisted prop = true ->
  exists lo hi e, prop = Node (K KComputed lo hi) [e] /\ is_ident e = false /\ is_lit e = false.
Proof.
  unfold key_hoisted. destruct prop as [[k lo hi| | | | | |] cs]; try discriminate.
  destruct k; try discriminate. destruct cs as [|e [|? ?]]; try discriminate.
  intros H. apply negb_true_iff in H. apply orb_false_iff in H. destruct H as [I L].
  exists lo, hi, e. repeat split; assumption.
Qed.

(** The object first, the key second -- and both are read from their temporaries in what is left of the target. *)
Theorem hoisted_key_captures_object c lo hi obj prop span a p t' a' p' :
  hoist_member c (Node (K KMember lo hi) [obj; prop]) span a p = Some (t', a', p') ->
  key_hoisted prop = true -> is_lit obj = false ->
  exists to tk klo khi key,
    prop = Node (K KComputed klo khi) [key] /\
    t' = Node (K KMember lo hi) [mk_ident DUMMY to; Node (K KComputed klo khi) [mk_ident DUMMY tk]] /\
    a_assigns a' = a_assigns a ++ [mk_assign span "=" (mk_binding_ident DUMMY to) (assign_right obj IKExpr);
                                   mk_assign span "=" (mk_binding_ident DUMMY tk) (assign_right key IKExpr)].
Proof.
  intros H KH LO. unfold hoist_member in H. rewrite KH in H. rewrite andb_false_r in H.
  destruct (get_temporal c obj span IKExpr a p) as [[id a1] p1] eqn:G.
  destruct (get_temporal_pushes _ _ _ _ _ _ _ _ G LO) as (to & -> & A1 & _).
  destruct (key_hoisted_computed _ KH) as (klo & khi & key & -> & IK & LK).
  unfold hoist_key in H. rewrite IK, LK in H. cbn [orb] in H.
  destruct (get_temporal c key span IKExpr a1 p1) as [[idk a2] p2] eqn:G2.
  destruct (get_temporal_pushes _ _ _ _ _ _ _ _ G2 LK) as (tk & -> & A2 & _).
  inversion H; subst. exists to, tk, klo, khi, key. repeat split.
  rewrite A2, A1, <- app_assoc. reflexivity.
Qed.

(** When the key stays (an identifier or a literal), an identifier or [this] object stays too: nothing is hoisted,
    the target is mentioned twice as it is. *)
Theorem plain_target_is_left_alone c lo hi obj prop span a p :
  key_hoisted prop = false -> (is_ident obj || is_kind KThis obj) = true ->
  hoist_member c (Node (K KMember lo hi) [obj; prop]) span a p = Some (Node (K KMember lo hi) [obj; prop], a, p).
Proof.
  intros KH IO. unfold hoist_member. rewrite KH, IO. cbn [andb negb].
  unfold key_hoisted in KH. unfold hoist_key.
  destruct prop as [[k l h| | | | | |] cs]; try reflexivity. destruct k; try reflexivity.
  destruct cs as [|e [|? ?]]; try reflexivity.
  apply negb_false_iff in KH. rewrite KH. reflexivity.
Qed.
