(** * Known-defect classes: narrow syntactic predicates on the INPUT tree.
    Each class is committed in /verif/known_findings.json with a witness; theorems about the model
    carry [<class> p = false] as their only extra hypothesis, and a [_refuted] lemma exhibits the
    witness.  The checks use the same (extracted) predicates to classify failing inputs. *)
From Coq Require Import String List NArith Bool.
From IastRw Require Import Ast Generated.
Import ListNotations.
Local Open Scope string_scope.
Local Open Scope list_scope.

Fixpoint any_node (P : node -> bool) (n : node) : bool :=
  P n || match n with Node _ cs =>
           (fix go (l : list node) : bool :=
              match l with [] => false | c :: l' => any_node P c || go l' end) cs
         end.

Definition kind_in (ks : list kind) (n : node) : bool :=
  match kind_of n with Some k => existsb (kind_eqb k) ks | None => false end.

Definition instrumentable_kinds : list kind := [KCall; KTpl; KBin; KAssign; KOptChain].

Definition compound_assign_target (n : node) : option node :=
  match n with
  | Node (K KAssign _ _) [Node (Str "+=") []; lhs; _] => Some lhs
  | _ => None
  end.

(** K1: a compound assignment [t += e] whose target contains an instrumentable operation
    (the target is emitted twice, so the hook call inside it is emitted twice). *)
Definition k_compound_target_instrumentable (prog : node) : bool :=
  any_node (fun n => match compound_assign_target n with
                     | Some lhs => any_node (kind_in instrumentable_kinds) lhs
                     | None => false
                     end) prog.

(** K2: a compound assignment whose target is a member expression that is more than
    [ident.prop] / [this.prop] / [ident[literal-or-ident]]: its object / key expression is
    evaluated twice by the rewritten code. *)
Definition simple_member_target (t : node) : bool :=
  match t with
  | Node (K KIdent _ _) _ => true
  | Node (K KMember _ _) [obj; prop] =>
      (is_ident obj || is_kind KThis obj)
      && match prop with
         | Node (K KIdentName _ _) _ => true
         | Node (K KPrivateName _ _) _ => true
         | Node (K KComputed _ _) [e] => is_lit e || is_ident e
         | _ => false
         end
  | Node (K KSuperProp _ _) [_; prop] =>
      match prop with
      | Node (K KIdentName _ _) _ => true
      | Node (K KComputed _ _) [e] => is_lit e || is_ident e
      | _ => false
      end
  | _ => false
  end.

Definition k_compound_member_target (prog : node) : bool :=
  any_node (fun n => match compound_assign_target n with
                     | Some lhs => negb (simple_member_target lhs)
                     | None => false
                     end) prog.

(** K3: optional chains.  The optional-chain visitor, once it has found a chain that ends in a
    configured method call, rewrites *every* optional link it meets afterwards -- also links
    inside call arguments or computed keys -- and guards the whole expression on the last one.
    The class: an optional-chain expression that contains such a target and has an optional
    link off its spine (above the first optional link of the spine). *)
Definition optchain_view (e : node) : option (bool * node) :=
  match e with
  | Node (K KOptChain _ _) [Node (Bln optional) []; base] => Some (optional, base)
  | _ => None
  end.

Definition is_optional_link (n : node) : bool :=
  match optchain_view n with Some (true, _) => true | _ => false end.

Definition has_optional (n : node) : bool := any_node is_optional_link n.

Definition is_oc_target (names : list string) (e : node) : bool :=
  match optchain_view e with
  | Some (false, Node (K KCall _ _) [_; callee; _; _]) =>
      match optchain_view callee with
      | Some (_, Node (K KMember _ _) [_; prop]) =>
          match ident_name_sym prop with
          | Some name => existsb (String.eqb name) names
          | None => false
          end
      | _ => false
      end
  | _ => false
  end.

(** Is there a target on the spine of [n] (the chain of base / callee / object links)? *)
Fixpoint spine_target (names : list string) (n : node) : bool :=
  match n with
  | Node (K KOptChain _ _) [_; base] => is_oc_target names n || spine_target names base
  | Node (K KCall _ _) [_; callee; _; _] => spine_target names callee
  | Node (K KMember _ _) [obj; _] => spine_target names obj
  | _ => false
  end.

(** Optional links in arguments / keys hanging off the spine, from the top down to the first
    optional link at or below the topmost target of the spine (where the visitor stops). *)
Fixpoint spine_off (names : list string) (found : bool) (n : node) : bool :=
  match n with
  | Node (K KOptChain _ _) [Node (Bln optional) []; base] =>
      let found' := found || is_oc_target names n in
      if found' && optional then false else spine_off names found' base
  | Node (K KCall _ _) [_; callee; args; _] => has_optional args || spine_off names found callee
  | Node (K KMember _ _) [obj; prop] => has_optional prop || spine_off names found obj
  | _ => false
  end.

Definition strictly_inside (P : node -> bool) (n : node) : bool :=
  match n with Node _ cs => existsb (any_node P) cs end.

Definition oc_defect (names : list string) (e : node) : bool :=
  if spine_target names e then spine_off names false e
  else strictly_inside (is_oc_target names) e.

Definition k_optchain_offspine (names : list string) (prog : node) : bool :=
  any_node (fun e => match optchain_view e with
                     | Some _ => oc_defect names e
                     | None => false
                     end) prog.

(** Names of the classes that apply to a program ([names] = configured method source names). *)
Definition known_classes (names : list string) (prog : node) : list string :=
  (if k_compound_target_instrumentable prog then ["compound-target-instrumentable"] else []) ++
  (if k_compound_member_target prog then ["compound-member-target"] else []) ++
  (if k_optchain_offspine names prog then ["optchain-offspine"] else []).
