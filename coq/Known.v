(** * Known-defect classes: narrow syntactic predicates on the INPUT tree.
    Each class is committed in /verif/known_findings.json with a witness; theorems about the model
    carry [<class> p = false] as their only extra hypothesis, and a [_refuted] lemma exhibits the
    witness.  The checks use the same (extracted) predicates to classify failing inputs. *)
From Coq Require Import String List NArith Bool.
From IastRw Require Import Ast Generated.
Import ListNotations.
Local Open Scope string_scope.
Local Open Scope list_scope.

Fixpoint any_node (P : node -> bool) (n : node) : bool :=
  P n || match n with Node _ cs =>
           (fix go (l : list node) : bool :=
              match l with [] => false | c :: l' => any_node P c || go l' end) cs
         end.

Definition kind_in (ks : list kind) (n : node) : bool :=
  match kind_of n with Some k => existsb (kind_eqb k) ks | None => false end.

Definition instrumentable_kinds : list kind := [KCall; KTpl; KBin; KAssign; KOptChain].

Definition compound_assign_target (n : node) : option node :=
  match n with
  | Node (K KAssign _ _) [Node (Str "+=") []; lhs; _] => Some lhs
  | _ => None
  end.

(** K1: a compound assignment [t += e] whose target contains an instrumentable operation
    (the target is emitted twice, so the hook call inside it is emitted twice). *)
Definition k_compound_target_instrumentable (prog : node) : bool :=
  any_node (fun n => match compound_assign_target n with
                     | Some lhs => any_node (kind_in instrumentable_kinds) lhs
                     | None => false
                     end) prog.

(** K2: a compound assignment whose target is a member expression that is more than
    [ident.prop] / [this.prop] / [ident[literal-or-ident]]: its object / key expression is
    evaluated twice by the rewritten code. *)
Definition simple_member_target (t : node) : bool :=
  match t with
  | Node (K KIdent _ _) _ => true
  | Node (K KMember _ _) [obj; prop] =>
      (is_ident obj || is_kind KThis obj)
      && match prop with
         | Node (K KIdentName _ _) _ => true
         | Node (K KPrivateName _ _) _ => true
         | Node (K KComputed _ _) [e] => is_lit e || is_ident e
         | _ => false
         end
  | Node (K KSuperProp _ _) [_; prop] =>
      match prop with
      | Node (K KIdentName _ _) _ => true
      | Node (K KComputed _ _) [e] => is_lit e || is_ident e
      | _ => false
      end
  | _ => false
  end.

Definition k_compound_member_target (prog : node) : bool :=
  any_node (fun n => match compound_assign_target n with
                     | Some lhs => negb (simple_member_target lhs)
                     | None => false
                     end) prog.

(** Names of the classes that apply to a program ([names] = configured method source names). *)
Definition known_classes (names : list string) (prog : node) : list string :=
  (if k_compound_target_instrumentable prog then ["compound-target-instrumentable"] else []) ++
  (if k_compound_member_target prog then ["compound-member-target"] else []).
