(** * Known-defect classes: narrow syntactic predicates on the INPUT tree.
    Each class is committed in /verif/known_findings.json with a witness; theorems about the model
    carry [<class> p = false] as their only extra hypothesis, and a [_refuted] lemma exhibits the
    witness.  The checks use the same (extracted) predicates to classify failing inputs. *)
From Coq Require Import String List NArith Bool.
From IastRw Require Import Ast Generated.
Import ListNotations.
Local Open Scope string_scope.
Local Open Scope list_scope.

Fixpoint any_node (P : node -> bool) (n : node) : bool :=
  P n || match n with Node _ cs =>
           (fix go (l : list node) : bool :=
              match l with [] => false | c :: l' => any_node P c || go l' end) cs
         end.

Definition kind_in (ks : list kind) (n : node) : bool :=
  match kind_of n with Some k => existsb (kind_eqb k) ks | None => false end.

Definition instrumentable_kinds : list kind := [KCall; KTpl; KBin; KAssign; KOptChain].

Definition compound_assign_target (n : node) : option node :=
  match n with
  | Node (K KAssign _ _) [Node (Str "+=") []; lhs; _] => Some lhs
  | _ => None
  end.

(** K4: [P.m.call(this, ..)] / [P.m.apply(this, ..)] of a configured method [m] whose path [P] is not
    static (an identifier, [this], or a dotted path of those): the rewritten code evaluates the
    this-argument before [P] -- the property exempts that order only for static paths. *)
Fixpoint static_path (e : node) : bool :=
  match e with
  | Node (K KIdent _ _) _ => true
  | Node (K KThis _ _) _ => true
  | Node (K KMember _ _) [obj; Node (K KIdentName _ _) _] => static_path obj
  | _ => false
  end.

Definition call_apply_nonstatic (names : list string) (n : node) : bool :=
  match n with
  | Node (K KCall _ _) [_; Node (K KMember _ _) [Node (K KMember _ _) [p; mprop]; cprop]; Node Lst (_ :: _); _] =>
      match ident_name_sym cprop, ident_name_sym mprop with
      | Some ca, Some m =>
          (String.eqb ca gen_CALL || String.eqb ca gen_APPLY) && existsb (String.eqb m) names && negb (static_path p)
      | _, _ => false
      end
  | _ => false
  end.

Definition k_call_apply_nonstatic (names : list string) (prog : node) : bool :=
  any_node (call_apply_nonstatic names) prog.

(** K5: an optional call whose callee is a member access reached through an EARLIER optional link of the same
    chain, [o?.p.m?.(x)]: the callee [o?.p.m] is not itself an optional access (its last link is a plain [.m]) and
    cannot be split without changing what the earlier short-circuit covers; when the chain is rewritten the callee is
    captured as a whole and called without its receiver.  ([o?.m?.(x)], [(o.m)?.(x)] and [o.m?.(x)] keep it.) *)
Fixpoint peel_paren_nodes (n : node) : node :=
  match n with
  | Node (K KParen _ _) [e] => peel_paren_nodes e
  | _ => n
  end.

Definition optional_call_through_chain (n : node) : bool :=
  match n with
  | Node (K KOptChain _ _) [Node (Bln true) []; Node (K KCall _ _) (_ :: callee :: _)] =>
      match peel_paren_nodes callee with
      | Node (K KOptChain _ _) [Node (Bln false) []; Node (K KMember _ _) _] => true
      | _ => false
      end
  | _ => false
  end.

Definition k_optional_call_through_chain (prog : node) : bool := any_node optional_call_through_chain prog.

(** K6: a bare call [f(args)] whose arguments assign to [f] itself ([f((f = g, 1))]): JavaScript reads the callee before
    evaluating the arguments; when the call is rewritten (a method allowed without callee) the arguments are captured
    first and the callee identifier is read afterwards. *)
Definition writes_ident (f : string) (n : node) : bool :=
  match n with
  | Node (K KAssign _ _) (_ :: lhs :: _) => match ident_sym lhs with Some x => String.eqb x f | None => false end
  | Node (K KUpdate _ _) cs => existsb (fun c => match ident_sym c with Some x => String.eqb x f | None => false end) cs
  | _ => false
  end.

Definition bare_call_callee_assigned (n : node) : bool :=
  match n with
  | Node (K KCall _ _) [_; callee; Node Lst args; _] =>
      match ident_sym callee with
      | Some f => existsb (any_node (writes_ident f)) args
      | None => false
      end
  | _ => false
  end.

Definition k_bare_call_callee_assigned (prog : node) : bool := any_node bare_call_callee_assigned prog.

(** Names of the classes that apply to a program ([names] = configured method source names). *)
Definition known_classes (names : list string) (prog : node) : list string :=
  (if k_call_apply_nonstatic names prog then ["call-apply-nonstatic-path"] else []) ++
  (if k_optional_call_through_chain prog then ["optional-call-through-chain"] else []) ++
  (if k_bare_call_callee_assigned prog then ["bare-call-callee-assigned-in-arguments"] else []).
