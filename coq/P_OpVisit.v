(** * Generic reasoning principles for the traversals of the model
    ([map_st], [default_visit_with], [op_visit], [block_visit]). *)
From Coq Require Import String List NArith Bool Lia.
From IastRw Require Import Ast Generated Config Model.
Import ListNotations.

(** ** [map_st]: a state relation that is reflexive, transitive and holds for every element's
    visit holds for the whole list. *)
Section MapStRel.
  Context {St : Type}.
  Variable f : node -> St -> option (node * St).
  Variable R : St -> St -> Prop.
  Hypothesis R_refl : forall s, R s s.
  Hypothesis R_trans : forall a b c, R a b -> R b c -> R a c.

  Lemma map_st_rel : forall l,
    (forall x, In x l -> forall s x' s', f x s = Some (x', s') -> R s s') ->
    forall s l' s', map_st f l s = Some (l', s') -> R s s'.
  Proof.
    induction l as [|x rest IH]; intros Hf s l' s' H; simpl in H.
    - inversion H; subst. apply R_refl.
    - destruct (f x s) as [[x' s1]|] eqn:E; [|discriminate].
      destruct (map_st f rest s1) as [[rest' s2]|] eqn:E2; [|discriminate].
      inversion H; subst.
      eapply R_trans.
      + eapply Hf; [left; reflexivity | exact E].
      + eapply IH; [|exact E2]. intros y Hy. apply Hf. right. exact Hy.
  Qed.
End MapStRel.

(** Element-wise relation between the input and the output list. *)
Section MapStForall2.
  Context {St : Type}.
  Variable f : node -> St -> option (node * St).
  Variable P : node -> node -> Prop.

  Lemma map_st_forall2 : forall l,
    (forall x, In x l -> forall s x' s', f x s = Some (x', s') -> P x x') ->
    forall s l' s', map_st f l s = Some (l', s') -> Forall2 P l l'.
  Proof.
    induction l as [|x rest IH]; intros Hf s l' s' H; simpl in H.
    - inversion H; subst. constructor.
    - destruct (f x s) as [[x' s1]|] eqn:E; [|discriminate].
      destruct (map_st f rest s1) as [[rest' s2]|] eqn:E2; [|discriminate].
      inversion H; subst. constructor.
      + eapply Hf; [left; reflexivity | exact E].
      + eapply IH; [|exact E2]. intros y Hy. apply Hf. right. exact Hy.
  Qed.

  Lemma map_st_length : forall l s l' s', map_st f l s = Some (l', s') -> length l' = length l.
  Proof.
    induction l as [|x rest IH]; intros s l' s' H; simpl in H.
    - inversion H; reflexivity.
    - destruct (f x s) as [[x' s1]|]; [|discriminate].
      destruct (map_st f rest s1) as [[rest' s2]|] eqn:E2; [|discriminate].
      inversion H; subst. simpl. f_equal. eapply IH; exact E2.
  Qed.
End MapStForall2.

(** ** [default_visit_with]: whatever holds of [rec] on every node holds of the traversal. *)
Section DefaultVisitRel.
  Variable rec : node -> ostate -> option (node * ostate).
  Variable R : ostate -> ostate -> Prop.
  Hypothesis R_refl : forall s, R s s.
  Hypothesis R_trans : forall a b c, R a b -> R b c -> R a c.
  Hypothesis Hrec : forall x s x' s', rec x s = Some (x', s') -> R s s'.

  Lemma default_visit_rel n s n' s' :
    default_visit_with rec n s = Some (n', s') -> R s s'.
  Proof.
    assert (M : forall l s l' s', map_st rec l s = Some (l', s') -> R s s').
    { intros l. apply map_st_rel; auto. intros x _. apply Hrec. }
    unfold default_visit_with. destruct n as [t cs].
    destruct t as [k lo hi| | | | | |].
    2-7: (destruct (map_st rec cs s) as [[cs' s1]|] eqn:E; [|discriminate];
          intros H; inversion H; subst; eapply M; exact E).
    destruct k;
      try (destruct (map_st rec cs s) as [[cs' s1]|] eqn:E; [|discriminate];
           intros H; inversion H; subst; eapply M; exact E).
    - (* KTaggedTpl *)
      destruct cs as [|cx [|tg [|tp [|[tplt tplcs] [|? ?]]]]];
        try (match goal with
             | |- context [map_st rec ?l s] =>
                 destruct (map_st rec l s) as [[cs' s1]|] eqn:E; [|discriminate];
                 intros H; inversion H; subst; eapply M; exact E
             end).
      destruct (map_st rec [cx; tg; tp] s) as [[l1 s1]|] eqn:E1; [|discriminate].
      destruct l1 as [|cx' [|tg' [|tp' [|? ?]]]]; try discriminate.
      destruct (map_st rec tplcs s1) as [[l2 s2]|] eqn:E2; [|discriminate].
      intros H; inversion H; subst. eapply R_trans; [eapply M; exact E1 | eapply M; exact E2].
    - (* KOptChain *)
      destruct cs as [|opt [|[bt bcs] [|? ?]]];
        try (match goal with
             | |- context [map_st rec ?l s] =>
                 destruct (map_st rec l s) as [[cs' s1]|] eqn:E; [|discriminate];
                 intros H; inversion H; subst; eapply M; exact E
             end).
  Qed.
End DefaultVisitRel.

(** The tag of the root survives the default traversal. *)
Lemma default_visit_tag rec n s n' s' :
  default_visit_with rec n s = Some (n', s') -> tag_of n' = tag_of n.
Proof.
  unfold default_visit_with. destruct n as [t cs].
  destruct t as [k lo hi| | | | | |].
  2-7: (destruct (map_st rec cs s) as [[cs' s1]|]; [|discriminate];
        intros H; inversion H; subst; reflexivity).
  destruct k;
    try (destruct (map_st rec cs s) as [[cs' s1]|]; [|discriminate];
         intros H; inversion H; subst; reflexivity).
  - destruct cs as [|cx [|tg [|tp [|[tplt tplcs] [|? ?]]]]];
      try (match goal with
           | |- context [map_st rec ?l s] =>
               destruct (map_st rec l s) as [[cs' s1]|]; [|discriminate];
               intros H; inversion H; subst; reflexivity
           end).
    destruct (map_st rec [cx; tg; tp] s) as [[l1 s1]|]; [|discriminate].
    destruct l1 as [|cx' [|tg' [|tp' [|? ?]]]]; try discriminate.
    destruct (map_st rec tplcs s1) as [[l2 s2]|]; [|discriminate].
    intros H; inversion H; subst. reflexivity.
  - destruct cs as [|opt [|[bt bcs] [|? ?]]];
      try (match goal with
           | |- context [map_st rec ?l s] =>
               destruct (map_st rec l s) as [[cs' s1]|]; [|discriminate];
               intros H; inversion H; subst; reflexivity
           end).
Qed.

(** ** Bookkeeping helpers never touch the telemetry. *)
Lemma o_with_p_t p s : o_t (o_with_p p s) = o_t s.
Proof. reflexivity. Qed.
Lemma o_leave_t root s : o_t (o_leave root s) = o_t s.
Proof. destruct root; reflexivity. Qed.
Lemma o_leave_p_idents root s : p_idents (o_p (o_leave root s)) = p_idents (o_p s).
Proof. destruct root; reflexivity. Qed.
