(** * The JS side (main.js CacheRewriter, js/source-map/index.js): the rewritten-maps cache as a
    state machine and the 1-based / 0-based conversion around [findEntry]. *)
From Coq Require Import String List NArith Bool.
From IastRw Require Import SrcMap.
Import ListNotations.

Section Cache.
  Context {M : Type}.
  (** One call of [CacheRewriter.rewrite]: the file and, when the result is modified, the map
      decoded from the trailer of its content ([None]: the result was not modified, or the rewrite
      failed -- either way the caller serves the file as written). *)
  Definition rewrite_event := (string * option M)%type.
  Definition cache := list (string * M).

  Fixpoint cache_get (c : cache) (f : string) : option M :=
    match c with
    | [] => None
    | (g, m) :: r => if String.eqb f g then Some m else cache_get r f
    end.

  Fixpoint cache_remove (c : cache) (f : string) : cache :=
    match c with
    | [] => []
    | (g, m) :: r => if String.eqb f g then cache_remove r f else (g, m) :: cache_remove r f
    end.

  (** modified: [cacheRewrittenSourceMap]; not modified or failed: the stale entry is dropped. *)
  Definition cache_step (c : cache) (e : rewrite_event) : cache :=
    match snd e with
    | Some m => (fst e, m) :: cache_remove c (fst e)
    | None => cache_remove c (fst e)
    end.

  (** Specification: the most recent event for [f] in the history (events are in call order). *)
  Fixpoint last_rewrite_map_rev_aux (h : list rewrite_event) (f : string) : option (option M) :=
    match h with
    | [] => None
    | e :: r =>
        match last_rewrite_map_rev_aux r f with
        | Some res => Some res
        | None => if String.eqb f (fst e) then Some (snd e) else None
        end
    end.

  (** The map of the most recent rewrite of [f], if that rewrite modified the file. *)
  Definition last_rewrite_map (h : list rewrite_event) (f : string) : option M :=
    match last_rewrite_map_rev_aux h f with Some r => r | None => None end.
End Cache.

(** [getPathAndLine]: V8 positions are 1-based, the map is 0-based; the original source is joined
    to the file's folder by the caller (here: returned as is).  Column 0 means "no column": the whole
    line is looked up (JavaScript's [Infinity]; here a column no map has: the decoder's are below 2^32). *)
Definition no_column : N := 4294967296.
Definition path_and_line (c : list (string * list (@token (string * N * N)))) (f : string) (line col : N)
  : string * N * N :=
  match cache_get c f with
  | Some m =>
      match find_entry m (N.pred line, if N.eqb col 0 then no_column else N.pred col) with
      | Some (_, (src, ol, oc)) => (src, N.succ ol, N.succ oc)
      | None => (f, line, col)
      end
  | None => (f, line, col)
  end.
