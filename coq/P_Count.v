(** * C15 / C12 -- the reported count equals the number of hook references emitted.
    Measure: [ns_count], the number of identifiers [_ddiast] in a tree (one per hook call site the
    rewriter emits).  Part 1: the operand handling moves sub-expressions around without losing or
    duplicating any reference. *)
From Coq Require Import String List NArith Bool Lia.
From IastRw Require Import Ast Generated Config Model HookSites P_OpVisit P_Local.
Import ListNotations.

(** ** Basics *)
Definition plain (n : node) : bool := negb (is_ident n) && negb (leaf n).

Lemma ns_node t cs : plain (Node t cs) = true -> ns_count (Node t cs) = ns_count_list cs.
Proof.
  unfold plain. intros H. apply andb_true_iff in H. destruct H as [H1 H2].
  apply negb_true_iff in H1. apply negb_true_iff in H2. cbn [ns_count]. rewrite H1, H2. reflexivity.
Qed.

Lemma ns_leaf n : leaf n = true -> ns_count n = 0.
Proof.
  destruct n as [t cs]. intros H. cbn [ns_count].
  assert (I : is_ident (Node t cs) = false).
  { destruct t as [k lo hi| | | | | |]; try reflexivity. destruct k; try reflexivity; discriminate H. }
  rewrite I, H. reflexivity.
Qed.

Lemma ns_lit e : is_lit e = true -> ns_count e = 0.
Proof.
  intros H. apply ns_leaf. destruct e as [[k lo hi| | | | | |] cs]; try discriminate H.
  unfold is_lit in H. cbn in H. unfold leaf, is_leaf_kind. rewrite H. reflexivity.
Qed.

Lemma ns_list_app a b : ns_count_list (a ++ b) = ns_count_list a + ns_count_list b.
Proof. unfold ns_count_list. induction a as [|x r IH]; simpl; [reflexivity | rewrite IH; lia]. Qed.

Lemma ns_list_cons x l : ns_count_list (x :: l) = ns_count x + ns_count_list l.
Proof. reflexivity. Qed.

(** Identifiers built by the rewriter. *)
Lemma ns_mk_ident s sym : String.eqb sym gen_DD_GLOBAL_NAMESPACE = false -> ns_count (mk_ident s sym) = 0.
Proof. intros H. unfold mk_ident, mk. cbn [ns_count is_ident is_kind kind_of kind_eqb is_ns_ident nS]. simpl. rewrite H. reflexivity. Qed.

Lemma ns_mk_binding_ident s sym : String.eqb sym gen_DD_GLOBAL_NAMESPACE = false -> ns_count (mk_binding_ident s sym) = 0.
Proof. intros H. unfold mk_binding_ident, mk. simpl. rewrite H. reflexivity. Qed.

Lemma temp_name_not_ns c n : String.eqb (temp_name c n) gen_DD_GLOBAL_NAMESPACE = false.
Proof. unfold temp_name, var_prefix. reflexivity. Qed.

Lemma ns_mk_ident_name s sym : ns_count (mk_ident_name s sym) = 0.
Proof. reflexivity. Qed.

Lemma ns_mk_arg e : ns_count (mk_arg e) = ns_count e.
Proof. unfold mk_arg, nO, nNul. rewrite ns_node by reflexivity. simpl. lia. Qed.

Lemma ns_mk_spread_arg e : ns_count (mk_spread_arg e) = ns_count e.
Proof. unfold mk_spread_arg, nO, span_obj. rewrite ns_node by reflexivity. simpl. lia. Qed.

Lemma ns_expr_or_spread e ik : ns_count (expr_or_spread e ik) = ns_count e.
Proof. destruct ik; [apply ns_mk_arg | apply ns_mk_spread_arg]. Qed.

Lemma ns_assign_right e ik : ns_count (assign_right e ik) = ns_count e.
Proof.
  destruct ik; [reflexivity|]. unfold assign_right, mk_array, mk. rewrite ns_node by reflexivity.
  unfold nL. cbn [ns_count_list fold_right]. rewrite ns_node by reflexivity.
  cbn [ns_count_list fold_right]. rewrite ns_mk_spread_arg. lia.
Qed.

Lemma ns_mk_assign span op l r : ns_count (mk_assign span op l r) = ns_count l + ns_count r.
Proof. unfold mk_assign, mk. rewrite ns_node by reflexivity. simpl. lia. Qed.

Lemma ns_mk_bin span op l r : ns_count (mk_bin span op l r) = ns_count l + ns_count r.
Proof. unfold mk_bin, mk. rewrite ns_node by reflexivity. simpl. lia. Qed.

Lemma ns_mk_member span o p : ns_count (mk_member span o p) = ns_count o + ns_count p.
Proof. unfold mk_member, mk. rewrite ns_node by reflexivity. simpl. lia. Qed.

Lemma ns_mk_paren span e : ns_count (mk_paren span e) = ns_count e.
Proof. unfold mk_paren, mk. rewrite ns_node by reflexivity. simpl. lia. Qed.

Lemma ns_mk_seq span es : ns_count (mk_seq span es) = ns_count_list es.
Proof.
  unfold mk_seq, mk, nL. rewrite ns_node by reflexivity. cbn [ns_count_list fold_right].
  rewrite ns_node by reflexivity. lia.
Qed.

Lemma ns_mk_call span callee args : ns_count (mk_call span callee args) = ns_count callee + ns_count_list args.
Proof.
  unfold mk_call, mk, nL. rewrite ns_node by reflexivity. cbn [ns_count_list fold_right].
  rewrite (ns_node Lst) by reflexivity. change (ns_count ctxt0) with 0. change (ns_count nNul) with 0. lia.
Qed.

(** The accumulated assignments and arguments. *)
Definition ns_acc (a : acc) : nat := ns_count_list (a_assigns a) + ns_count_list (a_args a).

Lemma ns_acc0 : ns_acc acc0 = 0.
Proof. reflexivity. Qed.

Lemma ns_push_assign x a : ns_acc (push_assign x a) = ns_acc a + ns_count x.
Proof. unfold ns_acc, push_assign. cbn [a_assigns a_args]. rewrite ns_list_app. simpl. lia. Qed.

Lemma ns_push_arg x a : ns_acc (push_arg x a) = ns_acc a + ns_count x.
Proof. unfold ns_acc, push_arg. cbn [a_assigns a_args]. rewrite ns_list_app. simpl. lia. Qed.

(** A hook call: exactly one reference more than what it wraps. *)
Lemma ns_dd_callee name span : ns_count (dd_callee name span) = 1.
Proof. unfold dd_callee. rewrite ns_mk_member. reflexivity. Qed.

Lemma ns_dd_call e args name span : ns_count (dd_call e args name span) = 1 + ns_count e + ns_count_list args.
Proof. unfold dd_call. rewrite ns_mk_call, ns_dd_callee, ns_list_cons, ns_mk_arg. lia. Qed.

Lemma ns_dd_paren e a name span : ns_count (dd_paren e a name span) = 1 + ns_count e + ns_acc a.
Proof.
  unfold dd_paren, ns_acc. destruct (a_assigns a) as [|x xs] eqn:E.
  - rewrite ns_dd_call. simpl. lia.
  - rewrite ns_mk_paren, ns_mk_seq, ns_list_app.
    change (ns_count_list [dd_call e (a_args a) name span]) with (ns_count (dd_call e (a_args a) name span) + 0).
    rewrite ns_dd_call. lia.
Qed.

(** ** Allocation and operand handling conserve the measure *)
Lemma get_temporal_ns c operand span ik a p id a' p' :
  get_temporal c operand span ik a p = (id, a', p') ->
  ns_count (match id with Some i => i | None => operand end) + ns_acc a' = ns_count operand + ns_acc a /\
  (id <> None -> ns_count (match id with Some i => i | None => operand end) = 0).
Proof.
  unfold get_temporal. destruct (is_lit operand) eqn:L.
  - intros H; inversion H; subst. split; [reflexivity | intros X; contradiction X; reflexivity].
  - unfold next_ident. cbn [fst snd]. intros H; inversion H; subst.
    rewrite ns_push_assign, ns_mk_assign, ns_assign_right.
    rewrite ns_mk_ident by apply temp_name_not_ns. rewrite ns_mk_binding_ident by apply temp_name_not_ns.
    split; [lia | reflexivity].
Qed.

(** After [get_ident] every reference of the operand is accounted for in the accumulator (in the
    temporary's assignment), and what stands for the operand -- the temporary, or the literal -- has none. *)
Lemma get_ident_ns c operand span ik a p id a' p' :
  get_ident c operand span ik a p = (id, a', p') ->
  let e' := match id with Some i => i | None => operand end in
  ns_acc a' = ns_count operand + ns_acc a /\ ns_count e' = 0.
Proof.
  unfold get_ident. destruct (get_temporal c operand span ik a p) as [[i a1] p1] eqn:E.
  intros H; inversion H; subst. cbn zeta.
  pose proof E as E0. apply get_temporal_ns in E. destruct E as [E1 E2].
  assert (Z : ns_count (match id with Some i => i | None => operand end) = 0).
  { destruct id as [i|]; [apply E2; discriminate|].
    unfold get_temporal in E0. destruct (is_lit operand) eqn:L; [apply ns_lit; exact L|].
    unfold next_ident in E0. cbn [fst snd] in E0. inversion E0. }
  rewrite ns_push_arg, ns_expr_or_spread. split; [lia | exact Z].
Qed.


Lemma replace_default_ns c e span ik a p e' a' p' :
  replace_default c e span ik a p = (e', a', p') ->
  ns_count e' + ns_acc a' = ns_count e + ns_acc a.
Proof.
  unfold replace_default. destruct (get_ident c e span ik a p) as [[id a1] p1] eqn:G.
  intros H; inversion H; subst. apply get_ident_ns in G. cbn zeta in G. destruct G as [G1 G2]. lia.
Qed.

Lemma bin_op_plain e op : bin_op e = Some op -> is_ident e = false /\ is_lit e = false.
Proof.
  destruct e as [[k lo hi| | | | | |] cs]; try discriminate. destruct k; try discriminate. auto.
Qed.

(** Without array expansion; an identifier that may be kept in place must not be a reference itself. *)
Lemma replace_expr_noexpand_ns c e im span ik a p e' a' p' :
  (im = Keep -> is_ident e = true -> ns_count e = 0) ->
  replace_expr_noexpand c e im span ik a p = (e', a', p') ->
  ns_count e' + ns_acc a' = ns_count e + ns_acc a.
Proof.
  intros Hid. unfold replace_expr_noexpand. destruct (is_lit e) eqn:L.
  - intros H; inversion H; subst. rewrite ns_push_arg, ns_expr_or_spread, (ns_lit _ L). lia.
  - destruct (is_ident e) eqn:I.
    + destruct im.
      * apply replace_default_ns.
      * intros H; inversion H; subst. rewrite ns_push_arg, ns_expr_or_spread, (Hid eq_refl eq_refl). lia.
    + destruct (bin_op e) as [op|].
      * destruct (String.eqb op "+"); [intros H; inversion H; subst; reflexivity | apply replace_default_ns].
      * apply replace_default_ns.
Qed.

Lemma replace_arg_noexpand_ns c arg span a p arg' a' p' :
  replace_arg_noexpand c arg Replace span a p = (arg', a', p') ->
  ns_count arg' + ns_acc a' = ns_count arg + ns_acc a.
Proof.
  unfold replace_arg_noexpand. destruct arg as [[| | | | | |] cs]; try (intros H; inversion H; subst; reflexivity).
  destruct cs as [|spr [|e [|? ?]]]; try (intros H; inversion H; subst; reflexivity).
  destruct (replace_expr_noexpand c e Replace span _ a p) as [[e1 a1] p1] eqn:E.
  intros H; inversion H; subst. apply replace_expr_noexpand_ns in E; [|discriminate].
  rewrite !ns_node by reflexivity. cbn [ns_count_list fold_right]. lia.
Qed.

Lemma replace_elems_ns c span : forall elems a p elems' a' p',
  replace_elems c elems Replace span a p = (elems', a', p') ->
  ns_count_list elems' + ns_acc a' = ns_count_list elems + ns_acc a.
Proof.
  induction elems as [|el rest IH]; intros a p elems' a' p' H; simpl in H.
  - inversion H; subst. reflexivity.
  - destruct (match el with Node Nul _ => (el, a, p) | _ => replace_arg_noexpand c el Replace span a p end)
      as [[el1 a1] p1] eqn:E1.
    destruct (replace_elems c rest Replace span a1 p1) as [[rest1 a2] p2] eqn:E2.
    inversion H; subst. apply IH in E2. rewrite !ns_list_cons.
    assert (X : ns_count el1 + ns_acc a1 = ns_count el + ns_acc a).
    { destruct el as [[| | | | | |] ecs]; try (apply replace_arg_noexpand_ns in E1; exact E1).
      inversion E1; subst. reflexivity. }
    lia.
Qed.

(** Replace mode (call arguments, template substitutions), with or without array expansion. *)
Lemma replace_expr_replace_ns c e span ik expand a p e' a' p' :
  replace_expr c e Replace span ik expand a p = (e', a', p') ->
  ns_count e' + ns_acc a' = ns_count e + ns_acc a.
Proof.
  unfold replace_expr.
  destruct (is_lit e || is_ident e); [apply replace_expr_noexpand_ns; discriminate|].
  destruct (bin_op e); [apply replace_expr_noexpand_ns; discriminate|].
  destruct e as [[k lo hi| | | | | |] cs]; try apply replace_default_ns.
  destruct k; try apply replace_default_ns.
  destruct cs as [|[[| | | | | |] elems] [|? ?]]; try apply replace_default_ns.
  destruct expand; [|apply replace_default_ns].
  destruct (replace_elems c elems Replace span a p) as [[elems1 a1] p1] eqn:E.
  intros H; inversion H; subst. apply replace_elems_ns in E.
  rewrite !(ns_node (K KArray lo hi)) by reflexivity. cbn [ns_count_list fold_right].
  rewrite !(ns_node Lst) by reflexivity. lia.
Qed.

(** Any mode, no expansion (the operands of [+]). *)
Lemma replace_expr_operand_ns c e im span ik a p e' a' p' :
  (im = Keep -> is_ident e = true -> ns_count e = 0) ->
  replace_expr c e im span ik false a p = (e', a', p') ->
  ns_count e' + ns_acc a' = ns_count e + ns_acc a.
Proof.
  intros Hid. unfold replace_expr.
  destruct (is_lit e || is_ident e); [apply replace_expr_noexpand_ns; exact Hid|].
  destruct (bin_op e); [apply replace_expr_noexpand_ns; exact Hid|].
  destruct e as [[k lo hi| | | | | |] cs]; try apply replace_default_ns.
  destruct k; try apply replace_default_ns.
  destruct cs as [|[[| | | | | |] elems] [|? ?]]; apply replace_default_ns.
Qed.

Lemma replace_arg_ns c arg span expand a p arg' a' p' :
  replace_arg c arg Replace span expand a p = (arg', a', p') ->
  ns_count arg' + ns_acc a' = ns_count arg + ns_acc a.
Proof.
  unfold replace_arg. destruct arg as [[| | | | | |] cs]; try (intros H; inversion H; subst; reflexivity).
  destruct cs as [|spr [|e [|? ?]]]; try (intros H; inversion H; subst; reflexivity).
  destruct (replace_expr c e Replace span _ expand a p) as [[e1 a1] p1] eqn:E.
  intros H; inversion H; subst. apply replace_expr_replace_ns in E.
  rewrite !ns_node by reflexivity. cbn [ns_count_list fold_right]. lia.
Qed.

Lemma replace_args_ns c span expand : forall args a p args' a' p',
  replace_args c args span expand a p = (args', a', p') ->
  ns_count_list args' + ns_acc a' = ns_count_list args + ns_acc a.
Proof.
  induction args as [|x rest IH]; intros a p args' a' p' H; simpl in H.
  - inversion H; subst. reflexivity.
  - destruct (replace_arg c x Replace span expand a p) as [[x1 a1] p1] eqn:E1.
    destruct (replace_args c rest span expand a1 p1) as [[rest1 a2] p2] eqn:E2.
    inversion H; subst. apply IH in E2. apply replace_arg_ns in E1. rewrite !ns_list_cons. lia.
Qed.

Lemma tpl_replace_ns c : forall es a p es' a' p',
  tpl_replace c es a p = (es', a', p') ->
  ns_count_list es' + ns_acc a' = ns_count_list es + ns_acc a.
Proof.
  induction es as [|x rest IH]; intros a p es' a' p' H; simpl in H.
  - inversion H; subst. reflexivity.
  - destruct (replace_expr c x Replace (span_of x) IKExpr false a p) as [[x1 a1] p1] eqn:E1.
    destruct (tpl_replace c rest a1 p1) as [[rest1 a2] p2] eqn:E2.
    inversion H; subst. apply IH in E2. apply replace_expr_replace_ns in E1. rewrite !ns_list_cons. lia.
Qed.

(** ** The transformations: exactly one reference more *)
Definition ident_clean (e : node) : Prop := is_ident e = true -> ns_count e = 0.

Theorem binary_transform_ns c lo hi opn l r p out p' :
  ident_clean l -> ident_clean r ->
  binary_transform c (Node (K KBin lo hi) [opn; l; r]) p = (Some out, p') ->
  ns_count out = 1 + ns_count (Node (K KBin lo hi) [opn; l; r]).
Proof.
  intros Hl Hr. unfold binary_transform.
  destruct (replace_expr c l (get_ident_mode r) (lo, hi) IKExpr false acc0 p) as [[l' a1] p1] eqn:E1.
  destruct (replace_expr c r (get_ident_mode l') (lo, hi) IKExpr false a1 p1) as [[r' a2] p2] eqn:E2.
  destruct (existsb arg_is_nonlit (a_args a2)); [|discriminate].
  intros H; inversion H; subst.
  apply replace_expr_operand_ns in E1; [|intros _; exact Hl].
  apply replace_expr_operand_ns in E2; [|intros _; exact Hr].
  rewrite ns_dd_paren. rewrite !(ns_node (K KBin lo hi)) by reflexivity.
  cbn [ns_count_list fold_right]. rewrite ns_acc0 in E1. lia.
Qed.

Theorem template_transform_ns c e p out p' :
  template_transform c e p = (Some out, p') -> ns_count out = 1 + ns_count e.
Proof.
  unfold template_transform. destruct e as [[k lo hi| | | | | |] cs]; try discriminate.
  destruct k; try discriminate.
  destruct cs as [|[[| | | | | |] es] [|quasis [|? ?]]]; try discriminate.
  destruct (tpl_replace c es acc0 p) as [[es' a] p1] eqn:E.
  intros H; inversion H; subst. apply tpl_replace_ns in E. rewrite ns_acc0 in E.
  rewrite ns_dd_paren. rewrite !(ns_node (K KTpl lo hi)) by reflexivity.
  cbn [ns_count_list fold_right]. rewrite !(ns_node Lst) by reflexivity. lia.
Qed.
