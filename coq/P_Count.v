(** * C15 / C12 -- the reported count equals the number of hook references emitted.
    Measure: [ns_count], the number of identifiers [_ddiast] in a tree (one per hook call site the
    rewriter emits).  Part 1: the operand handling moves sub-expressions around without losing or
    duplicating any reference. *)
From Coq Require Import String List NArith Bool Lia.
From IastRw Require Import Ast Generated Config Model HookSites P_OpVisit P_Local.
Import ListNotations.

(** ** Basics *)
Definition plain (n : node) : bool := negb (is_ident n) && negb (leaf n).

Section Measure.
  Variable stop : node -> option nat.
  Variable kappa : nat.
  Local Notation mu := (meas stop kappa).
  Local Notation mul := (meas_list stop kappa).
  (** The names the rewriter may dereference on the hook namespace, and what a callee built with one weighs:
      the weight of one reference (for the plain count, where a member on the namespace has no weight of its
      own, every name is acceptable). *)
  Variable okname : string -> Prop.
  Hypothesis mu_callee : forall name span, okname name -> mu (dd_callee name span) = kappa.

Lemma ns_node t cs : plain (Node t cs) = true -> stop_kind (Node t cs) = false -> mu (Node t cs) = mul cs.
Proof.
  unfold plain. intros H HB. apply andb_true_iff in H. destruct H as [H1 H2].
  apply negb_true_iff in H1. apply negb_true_iff in H2. cbn [meas]. rewrite H1, H2, HB. reflexivity.
Qed.

Lemma ns_leaf n : leaf n = true -> mu n = 0.
Proof.
  destruct n as [t cs]. intros H. cbn [mu].
  assert (I : is_ident (Node t cs) = false).
  { destruct t as [k lo hi| | | | | |]; try reflexivity. destruct k; try reflexivity; discriminate H. }
  rewrite I, H. reflexivity.
Qed.

Lemma ns_lit e : is_lit e = true -> mu e = 0.
Proof.
  intros H. apply ns_leaf. destruct e as [[k lo hi| | | | | |] cs]; try discriminate H.
  unfold is_lit in H. cbn in H. unfold leaf, is_leaf_kind. rewrite H. reflexivity.
Qed.

Lemma ns_list_app a b : mul (a ++ b) = mul a + mul b.
Proof. unfold mul. induction a as [|x r IH]; simpl; [reflexivity | rewrite IH; lia]. Qed.

Lemma ns_list_cons x l : mul (x :: l) = mu x + mul l.
Proof. reflexivity. Qed.

(** Identifiers built by the rewriter. *)
Lemma ns_mk_ident s sym : String.eqb sym gen_DD_GLOBAL_NAMESPACE = false -> mu (mk_ident s sym) = 0.
Proof. intros H. unfold mk_ident, mk. cbn [mu is_ident is_kind kind_of kind_eqb is_ns_ident nS]. simpl. rewrite H. reflexivity. Qed.

Lemma ns_mk_binding_ident s sym : String.eqb sym gen_DD_GLOBAL_NAMESPACE = false -> mu (mk_binding_ident s sym) = 0.
Proof. intros H. unfold mk_binding_ident, mk. simpl. rewrite H. reflexivity. Qed.

Lemma temp_name_not_ns c n : String.eqb (temp_name c n) gen_DD_GLOBAL_NAMESPACE = false.
Proof. unfold temp_name, var_prefix. reflexivity. Qed.

Lemma ns_mk_ident_name s sym : mu (mk_ident_name s sym) = 0.
Proof. reflexivity. Qed.

Lemma ns_mk_arg e : mu (mk_arg e) = mu e.
Proof. unfold mk_arg, nO, nNul. rewrite ns_node by reflexivity. simpl. lia. Qed.

Lemma ns_mk_spread_arg e : mu (mk_spread_arg e) = mu e.
Proof. unfold mk_spread_arg, nO, span_obj. rewrite ns_node by reflexivity. simpl. lia. Qed.

Lemma ns_expr_or_spread e ik : mu (expr_or_spread e ik) = mu e.
Proof. destruct ik; [apply ns_mk_arg | apply ns_mk_spread_arg]. Qed.

Lemma ns_assign_right e ik : mu (assign_right e ik) = mu e.
Proof.
  destruct ik; [unfold assign_right; destruct (is_kind KSeq e); [unfold mk_paren, mk; rewrite ns_node by reflexivity; simpl; lia | reflexivity]|]. unfold assign_right, mk_array, mk. rewrite ns_node by reflexivity.
  unfold nL. cbn [mul fold_right]. rewrite ns_node by reflexivity.
  cbn [mul fold_right]. rewrite ns_mk_spread_arg. lia.
Qed.

Lemma ns_mk_assign span op l r : mu (mk_assign span op l r) = mu l + mu r.
Proof. unfold mk_assign, mk. rewrite ns_node by reflexivity. simpl. lia. Qed.

Lemma ns_mk_bin span op l r : mu (mk_bin span op l r) = mu l + mu r.
Proof. unfold mk_bin, mk. rewrite ns_node by reflexivity. simpl. lia. Qed.

Lemma ns_mk_member span o p : is_ns_ident o = false -> mu (mk_member span o p) = mu o + mu p.
Proof. intros NS. unfold mk_member, mk. rewrite ns_node; [simpl; lia | reflexivity | cbn; exact NS]. Qed.

Lemma ns_mk_paren span e : mu (mk_paren span e) = mu e.
Proof. unfold mk_paren, mk. rewrite ns_node by reflexivity. simpl. lia. Qed.

Lemma ns_mk_seq span es : mu (mk_seq span es) = mul es.
Proof.
  unfold mk_seq, mk, nL. rewrite ns_node by reflexivity. cbn [mul fold_right].
  rewrite ns_node by reflexivity. lia.
Qed.

Lemma ns_mk_call span callee args : mu (mk_call span callee args) = mu callee + mul args.
Proof.
  unfold mk_call, mk, nL. rewrite ns_node by reflexivity. cbn [mul fold_right].
  rewrite (ns_node Lst) by reflexivity. change (mu ctxt0) with 0. change (mu nNul) with 0. lia.
Qed.

(** The accumulated assignments and arguments. *)
Definition ns_acc (a : acc) : nat := mul (a_assigns a) + mul (a_args a).

Lemma ns_acc0 : ns_acc acc0 = 0.
Proof. reflexivity. Qed.

Lemma ns_push_assign x a : ns_acc (push_assign x a) = ns_acc a + mu x.
Proof. unfold ns_acc, push_assign. cbn [a_assigns a_args]. rewrite ns_list_app. simpl. lia. Qed.

Lemma ns_push_arg x a : ns_acc (push_arg x a) = ns_acc a + mu x.
Proof. unfold ns_acc, push_arg. cbn [a_assigns a_args]. rewrite ns_list_app. simpl. lia. Qed.

(** A hook call: exactly one reference more than what it wraps. *)
Lemma ns_dd_callee name span : okname name -> mu (dd_callee name span) = kappa.
Proof. apply mu_callee. Qed.

Lemma ns_dd_call e args name span : okname name -> mu (dd_call e args name span) = kappa + mu e + mul args.
Proof. intros OK. unfold dd_call. rewrite ns_mk_call, (ns_dd_callee _ _ OK), ns_list_cons, ns_mk_arg. lia. Qed.

Lemma ns_dd_paren e a name span : okname name -> mu (dd_paren e a name span) = kappa + mu e + ns_acc a.
Proof.
  intros OK. pose proof (fun e args => ns_dd_call e args _ span OK) as ns_dd_call'.
  unfold dd_paren, ns_acc. destruct (a_assigns a) as [|x xs] eqn:E.
  - rewrite ns_dd_call'. simpl. lia.
  - rewrite ns_mk_paren, ns_mk_seq, ns_list_app.
    change (mul [dd_call e (a_args a) name span]) with (mu (dd_call e (a_args a) name span) + 0).
    rewrite ns_dd_call'. lia.
Qed.

(** ** Allocation and operand handling conserve the measure *)
Lemma get_temporal_ns c operand span ik a p id a' p' :
  get_temporal c operand span ik a p = (id, a', p') ->
  mu (match id with Some i => i | None => operand end) + ns_acc a' = mu operand + ns_acc a /\
  (id <> None -> mu (match id with Some i => i | None => operand end) = 0).
Proof.
  unfold get_temporal. destruct (is_lit operand) eqn:L.
  - intros H; inversion H; subst. split; [reflexivity | intros X; contradiction X; reflexivity].
  - unfold next_ident. cbn [fst snd]. intros H; inversion H; subst.
    rewrite ns_push_assign, ns_mk_assign, ns_assign_right.
    rewrite ns_mk_ident by apply temp_name_not_ns. rewrite ns_mk_binding_ident by apply temp_name_not_ns.
    split; [lia | reflexivity].
Qed.

(** After [get_ident] every reference of the operand is accounted for in the accumulator (in the
    temporary's assignment), and what stands for the operand -- the temporary, or the literal -- has none. *)
Lemma get_ident_ns c operand span ik a p id a' p' :
  get_ident c operand span ik a p = (id, a', p') ->
  let e' := match id with Some i => i | None => operand end in
  ns_acc a' = mu operand + ns_acc a /\ mu e' = 0.
Proof.
  unfold get_ident. destruct (get_temporal c operand span ik a p) as [[i a1] p1] eqn:E.
  intros H; inversion H; subst. cbn zeta.
  pose proof E as E0. apply get_temporal_ns in E. destruct E as [E1 E2].
  assert (Z : mu (match id with Some i => i | None => operand end) = 0).
  { destruct id as [i|]; [apply E2; discriminate|].
    unfold get_temporal in E0. destruct (is_lit operand) eqn:L; [apply ns_lit; exact L|].
    unfold next_ident in E0. cbn [fst snd] in E0. inversion E0. }
  rewrite ns_push_arg, ns_expr_or_spread. split; [lia | exact Z].
Qed.


Lemma replace_default_ns c e span ik a p e' a' p' :
  replace_default c e span ik a p = (e', a', p') ->
  mu e' + ns_acc a' = mu e + ns_acc a.
Proof.
  unfold replace_default. destruct (get_ident c e span ik a p) as [[id a1] p1] eqn:G.
  intros H; inversion H; subst. apply get_ident_ns in G. cbn zeta in G. destruct G as [G1 G2]. lia.
Qed.

Lemma bin_op_plain e op : bin_op e = Some op -> is_ident e = false /\ is_lit e = false.
Proof.
  destruct e as [[k lo hi| | | | | |] cs]; try discriminate. destruct k; try discriminate. auto.
Qed.

(** Without array expansion; an identifier that may be kept in place must not be a reference itself. *)
Lemma replace_expr_noexpand_ns c e im span ik a p e' a' p' :
  (im = Keep -> is_ident e = true -> mu e = 0) ->
  replace_expr_noexpand c e im span ik a p = (e', a', p') ->
  mu e' + ns_acc a' = mu e + ns_acc a.
Proof.
  intros Hid. unfold replace_expr_noexpand. destruct (is_lit e) eqn:L.
  - intros H; inversion H; subst. rewrite ns_push_arg, ns_expr_or_spread, (ns_lit _ L). lia.
  - destruct (is_ident e) eqn:I.
    + destruct im.
      * apply replace_default_ns.
      * intros H; inversion H; subst. rewrite ns_push_arg, ns_expr_or_spread, (Hid eq_refl eq_refl). lia.
    + destruct (bin_op e) as [op|].
      * destruct (String.eqb op "+"); [intros H; inversion H; subst; reflexivity | apply replace_default_ns].
      * apply replace_default_ns.
Qed.

Lemma replace_arg_noexpand_ns c arg span a p arg' a' p' :
  replace_arg_noexpand c arg Replace span a p = (arg', a', p') ->
  mu arg' + ns_acc a' = mu arg + ns_acc a.
Proof.
  unfold replace_arg_noexpand. destruct arg as [[| | | | | |] cs]; try (intros H; inversion H; subst; reflexivity).
  destruct cs as [|spr [|e [|? ?]]]; try (intros H; inversion H; subst; reflexivity).
  destruct (replace_expr_noexpand c e Replace span _ a p) as [[e1 a1] p1] eqn:E.
  intros H; inversion H; subst. apply replace_expr_noexpand_ns in E; [|discriminate].
  rewrite !ns_node by reflexivity. cbn [mul fold_right]. lia.
Qed.

Lemma replace_elems_ns c span : forall elems a p elems' a' p',
  replace_elems c elems Replace span a p = (elems', a', p') ->
  mul elems' + ns_acc a' = mul elems + ns_acc a.
Proof.
  induction elems as [|el rest IH]; intros a p elems' a' p' H; simpl in H.
  - inversion H; subst. reflexivity.
  - destruct (match el with Node Nul _ => (el, a, p) | _ => replace_arg_noexpand c el Replace span a p end)
      as [[el1 a1] p1] eqn:E1.
    destruct (replace_elems c rest Replace span a1 p1) as [[rest1 a2] p2] eqn:E2.
    inversion H; subst. apply IH in E2. rewrite !ns_list_cons.
    assert (X : mu el1 + ns_acc a1 = mu el + ns_acc a).
    { destruct el as [[| | | | | |] ecs]; try (apply replace_arg_noexpand_ns in E1; exact E1).
      inversion E1; subst. reflexivity. }
    lia.
Qed.

(** Replace mode (call arguments, template substitutions), with or without array expansion. *)
Lemma replace_expr_replace_ns c e span ik expand a p e' a' p' :
  replace_expr c e Replace span ik expand a p = (e', a', p') ->
  mu e' + ns_acc a' = mu e + ns_acc a.
Proof.
  unfold replace_expr.
  destruct (is_lit e || is_ident e); [apply replace_expr_noexpand_ns; discriminate|].
  destruct (bin_op e); [apply replace_expr_noexpand_ns; discriminate|].
  destruct e as [[k lo hi| | | | | |] cs]; try apply replace_default_ns.
  destruct k; try apply replace_default_ns.
  destruct cs as [|[[| | | | | |] elems] [|? ?]]; try apply replace_default_ns.
  destruct expand; [|apply replace_default_ns].
  destruct (replace_elems c elems Replace span a p) as [[elems1 a1] p1] eqn:E.
  intros H; inversion H; subst. apply replace_elems_ns in E.
  rewrite !(ns_node (K KArray lo hi)) by reflexivity. cbn [mul fold_right].
  rewrite !(ns_node Lst) by reflexivity. lia.
Qed.

(** Any mode, no expansion (the operands of [+]). *)
Lemma replace_expr_operand_ns c e im span ik a p e' a' p' :
  (im = Keep -> is_ident e = true -> mu e = 0) ->
  replace_expr c e im span ik false a p = (e', a', p') ->
  mu e' + ns_acc a' = mu e + ns_acc a.
Proof.
  intros Hid. unfold replace_expr.
  destruct (is_lit e || is_ident e); [apply replace_expr_noexpand_ns; exact Hid|].
  destruct (bin_op e); [apply replace_expr_noexpand_ns; exact Hid|].
  destruct e as [[k lo hi| | | | | |] cs]; try apply replace_default_ns.
  destruct k; try apply replace_default_ns.
  destruct cs as [|[[| | | | | |] elems] [|? ?]]; apply replace_default_ns.
Qed.

Lemma replace_arg_ns c arg span expand a p arg' a' p' :
  replace_arg c arg Replace span expand a p = (arg', a', p') ->
  mu arg' + ns_acc a' = mu arg + ns_acc a.
Proof.
  unfold replace_arg. destruct arg as [[| | | | | |] cs]; try (intros H; inversion H; subst; reflexivity).
  destruct cs as [|spr [|e [|? ?]]]; try (intros H; inversion H; subst; reflexivity).
  destruct (replace_expr c e Replace span _ expand a p) as [[e1 a1] p1] eqn:E.
  intros H; inversion H; subst. apply replace_expr_replace_ns in E.
  rewrite !ns_node by reflexivity. cbn [mul fold_right]. lia.
Qed.

Lemma replace_args_ns c span expand : forall args a p args' a' p',
  replace_args c args span expand a p = (args', a', p') ->
  mul args' + ns_acc a' = mul args + ns_acc a.
Proof.
  induction args as [|x rest IH]; intros a p args' a' p' H; simpl in H.
  - inversion H; subst. reflexivity.
  - destruct (replace_arg c x Replace span expand a p) as [[x1 a1] p1] eqn:E1.
    destruct (replace_args c rest span expand a1 p1) as [[rest1 a2] p2] eqn:E2.
    inversion H; subst. apply IH in E2. apply replace_arg_ns in E1. rewrite !ns_list_cons. lia.
Qed.

Lemma tpl_replace_ns c : forall es a p es' a' p',
  tpl_replace c es a p = (es', a', p') ->
  mul es' + ns_acc a' = mul es + ns_acc a.
Proof.
  induction es as [|x rest IH]; intros a p es' a' p' H; simpl in H.
  - inversion H; subst. reflexivity.
  - destruct (replace_expr c x Replace (span_of x) IKExpr false a p) as [[x1 a1] p1] eqn:E1.
    destruct (tpl_replace c rest a1 p1) as [[rest1 a2] p2] eqn:E2.
    inversion H; subst. apply IH in E2. apply replace_expr_replace_ns in E1. rewrite !ns_list_cons. lia.
Qed.

(** ** The transformations: exactly one reference more *)
Definition ident_clean (e : node) : Prop := is_ident e = true -> mu e = 0.

Theorem binary_transform_ns c lo hi opn l r p out p' :
  okname (plus_name c) -> ident_clean l -> ident_clean r ->
  binary_transform c (Node (K KBin lo hi) [opn; l; r]) p = (Some out, p') ->
  mu out = kappa + mu (Node (K KBin lo hi) [opn; l; r]).
Proof.
  intros OKN Hl Hr. unfold binary_transform.
  destruct (replace_expr c l (get_ident_mode r) (lo, hi) IKExpr false acc0 p) as [[l' a1] p1] eqn:E1.
  destruct (replace_expr c r (get_ident_mode l') (lo, hi) IKExpr false a1 p1) as [[r' a2] p2] eqn:E2.
  destruct (existsb arg_is_nonlit (a_args a2)); [|discriminate].
  intros H; inversion H; subst.
  apply replace_expr_operand_ns in E1; [|intros _; exact Hl].
  apply replace_expr_operand_ns in E2; [|intros _; exact Hr].
  rewrite ns_dd_paren by exact OKN. rewrite !(ns_node (K KBin lo hi)) by reflexivity.
  cbn [mul fold_right]. rewrite ns_acc0 in E1. lia.
Qed.

Theorem template_transform_ns c e p out p' :
  okname (tpl_name c) ->
  template_transform c e p = (Some out, p') -> mu out = kappa + mu e.
Proof.
  intros OKN. unfold template_transform. destruct e as [[k lo hi| | | | | |] cs]; try discriminate.
  destruct k; try discriminate.
  destruct cs as [|[[| | | | | |] es] [|quasis [|? ?]]]; try discriminate.
  destruct (tpl_replace c es acc0 p) as [[es' a] p1] eqn:E.
  intros H; inversion H; subst. apply tpl_replace_ns in E. rewrite ns_acc0 in E.
  rewrite ns_dd_paren by exact OKN. rewrite !(ns_node (K KTpl lo hi)) by reflexivity.
  cbn [mul fold_right]. rewrite !(ns_node Lst) by reflexivity. lia.
Qed.

(** Temporaries and literals are not the hook namespace. *)
Lemma temp_ident_not_ns c n : is_ns_ident (mk_ident DUMMY (temp_name c n)) = false.
Proof. unfold mk_ident, mk. cbn. apply (temp_name_not_ns c n). Qed.

Lemma lit_not_ns e : is_lit e = true -> is_ns_ident e = false.
Proof.
  destruct e as [[k lo hi| | | | | |] cs]; try reflexivity. destruct k; try reflexivity. discriminate.
Qed.

Lemma get_temporal_not_ns c operand span ik a p id a' p' :
  get_temporal c operand span ik a p = (id, a', p') ->
  is_ns_ident (match id with Some i => i | None => operand end) = false /\ (id = None -> is_lit operand = true).
Proof.
  intros H. apply get_temporal_spec in H. destruct H as [(L & -> & _) | (L & -> & _)].
  - split; [apply lit_not_ns; exact L | intros _; exact L].
  - split; [apply temp_ident_not_ns | discriminate].
Qed.

Lemma get_ident_not_ns c operand span ik a p id a' p' :
  get_ident c operand span ik a p = (id, a', p') ->
  is_ns_ident (match id with Some i => i | None => operand end) = false /\ (id = None -> is_lit operand = true).
Proof.
  unfold get_ident. destruct (get_temporal c operand span ik a p) as [[i a1] p1] eqn:E.
  intros H; inversion H; subst. eapply get_temporal_not_ns; exact E.
Qed.

(** ** Calls *)
Lemma replace_callee_and_args_ns c lo hi cx callee args targs ident_callee coa a p call' a' p' :
  match ident_callee with Some id => is_ns_ident id = false | None => True end ->
  replace_callee_and_args c (Node (K KCall lo hi) [cx; callee; Node Lst args; targs]) ident_callee coa a p = (call', a', p') ->
  mu call' + ns_acc a' =
    mu cx + mu targs + mul args + ns_acc a +
    match ident_callee with Some id => mu id | None => mu callee end.
Proof.
  intros NSI. unfold replace_callee_and_args.
  destruct (replace_args c args (lo, hi) _ a p) as [[args1 a1] p1] eqn:E.
  intros H; inversion H; subst. apply replace_args_ns in E.
  rewrite (ns_node (K KCall lo hi)) by reflexivity. cbn [mul fold_right].
  rewrite (ns_node Lst) by reflexivity.
  destruct ident_callee as [id|]; [rewrite (ns_mk_member _ _ _ NSI), ns_mk_ident_name|]; lia.
Qed.

Lemma ns_insert_this lo hi cx callee args targs this :
  mu (insert_this (Node (K KCall lo hi) [cx; callee; Node Lst args; targs]) this) =
  mu (Node (K KCall lo hi) [cx; callee; Node Lst args; targs]) + mu this.
Proof.
  unfold insert_this. rewrite !(ns_node (K KCall lo hi)) by reflexivity. cbn [mul fold_right].
  rewrite !(ns_node Lst) by reflexivity. rewrite ns_list_cons, ns_mk_arg. lia.
Qed.

Lemma replace_callee_shape c lo hi cx callee args targs ident_callee coa a p call' a' p' :
  replace_callee_and_args c (Node (K KCall lo hi) [cx; callee; Node Lst args; targs]) ident_callee coa a p = (call', a', p') ->
  exists callee' args', call' = Node (K KCall lo hi) [cx; callee'; Node Lst args'; targs].
Proof.
  unfold replace_callee_and_args.
  destruct (replace_args c args (lo, hi) _ a p) as [[args1 a1] p1].
  intros H; inversion H; subst. eauto.
Qed.

(** [replace_with_member] on a call of the usual shape: one reference more than the receiver, the
    member expression handed over (if any), the arguments and the call's scalar fields. *)
Lemma replace_with_member_ns c recv method mspan lo hi cx callee args targs member_opt coa p out tag p' :
  (forall name m, csi_get c name = Some m -> okname (m_dst m)) ->
  (forall m, member_opt = Some m -> is_lit m = false) ->
  replace_with_member c recv method mspan (Node (K KCall lo hi) [cx; callee; Node Lst args; targs]) member_opt coa p
    = (Some (out, tag), p') ->
  mu out = kappa + mu cx + mu targs + mul args + mu recv +
                 match member_opt with Some m => mu m | None => 0 end.
Proof.
  intros OKC Hm. unfold replace_with_member. destruct (csi_get c method) as [csi|] eqn:CG; [|discriminate].
  apply OKC in CG. cbn [span_of].
  destruct (get_temporal c recv (lo, hi) IKExpr acc0 p) as [[id_opt a1] p1] eqn:E1.
  set (r0 := match id_opt with Some i => i | None => recv end) in *.
  set (member := match member_opt with Some m => m | None => mk_member (lo, hi) r0 (mk_ident_name mspan method) end) in *.
  destruct (get_ident c member (lo, hi) IKExpr a1 p1) as [[callee_opt a2] p2] eqn:E2.
  destruct (replace_callee_and_args c _ (Some (match callee_opt with Some i => i | None => recv end)) coa
              (push_arg (mk_arg r0) a2) p2) as [[call' a4] p4] eqn:E3.
  intros H; inversion H; subst.
  (* the receiver *)
  assert (R0 : mu r0 = 0 /\ ns_acc a1 = mu recv).
  { pose proof E1 as E1'. apply get_temporal_ns in E1'. destruct E1' as [X Y]. rewrite ns_acc0 in X.
    unfold r0. destruct id_opt as [i|].
    - rewrite (Y ltac:(discriminate)) in *. lia.
    - unfold get_temporal in E1. destruct (is_lit recv) eqn:L.
      + rewrite (ns_lit _ L) in *. lia.
      + unfold next_ident in E1. cbn [fst snd] in E1. inversion E1. }
  destruct R0 as [R0 R1].
  (* the member expression *)
  assert (ML : is_lit member = false).
  { unfold member. destruct member_opt as [m|]; [apply Hm; reflexivity | reflexivity]. }
  pose proof E2 as E2'. apply get_ident_ns in E2'. cbn zeta in E2'. destruct E2' as [M1 M2].
  assert (CE : mu (match callee_opt with Some i => i | None => recv end) = 0).
  { destruct callee_opt as [i|]; [exact M2|].
    unfold get_ident in E2. destruct (get_temporal c member (lo, hi) IKExpr a1 p1) as [[i2 a3] p3] eqn:T.
    inversion E2; subst. unfold get_temporal in T. rewrite ML in T. unfold next_ident in T. cbn [fst snd] in T. inversion T. }
  assert (NR0 : is_ns_ident r0 = false) by (unfold r0; eapply get_temporal_not_ns; exact E1).
  assert (NCE : is_ns_ident (match callee_opt with Some i => i | None => recv end) = false).
  { destruct (get_ident_not_ns _ _ _ _ _ _ _ _ _ E2) as [X Y]. destruct callee_opt as [i|]; [exact X|].
    rewrite (Y eq_refl) in ML. discriminate ML. }
  pose proof (replace_callee_shape _ _ _ _ _ _ _ _ _ _ _ _ _ _ E3) as (callee' & args' & ->).
  apply replace_callee_and_args_ns in E3; [|exact NCE]. rewrite ns_push_arg, ns_mk_arg, R0, CE in E3.
  rewrite ns_dd_paren by exact CG. rewrite ns_insert_this, R0.
  assert (MM : mu member = match member_opt with Some m => mu m | None => 0 end).
  { unfold member. destruct member_opt as [m|]; [reflexivity|]. rewrite ns_mk_member by exact NR0. rewrite ns_mk_ident_name, R0. reflexivity. }
  lia.
Qed.

Lemma replace_spread_ns c method lo hi cx callee args targs member coa p out tag p' :
  (forall name m, csi_get c name = Some m -> okname (m_dst m)) ->
  replace_spread_with_member c method (Node (K KCall lo hi) [cx; callee; Node Lst args; targs]) member coa p
    = (Some (out, tag), p') ->
  mu out = kappa + mu cx + mu targs + mul args + mu member.
Proof.
  intros OKC. unfold replace_spread_with_member. destruct (csi_get c method) as [csi|] eqn:CG; [|discriminate].
  apply OKC in CG. cbn [span_of].
  destruct (get_ident c member (lo, hi) IKExpr acc0 p) as [[callee_opt a1] p1] eqn:E1.
  destruct callee_opt as [cal|]; [|discriminate].
  destruct (replace_callee_and_args c _ (Some cal) (Some coa) a1 p1) as [[call' a2] p2] eqn:E2.
  intros H; inversion H; subst.
  pose proof (proj1 (get_ident_not_ns _ _ _ _ _ _ _ _ _ E1)) as NCAL.
  apply get_ident_ns in E1. cbn zeta in E1. destruct E1 as [X Y]. rewrite ns_acc0 in X.
  apply replace_callee_and_args_ns in E2; [|exact NCAL]. rewrite ns_dd_paren by exact CG. lia.
Qed.

Lemma replace_without_callee_ns c callee_ident lo hi cx callee args targs p out tag p' :
  (forall name m, csi_get c name = Some m -> okname (m_dst m)) ->
  mu callee_ident = 0 -> callee = callee_ident ->
  replace_without_callee c callee_ident (Node (K KCall lo hi) [cx; callee; Node Lst args; targs]) p = (Some (out, tag), p') ->
  mu out = kappa + mu cx + mu targs + mul args + mu callee.
Proof.
  intros OKC Hc ->. unfold replace_without_callee. destruct (ident_sym callee_ident) as [name|]; [|discriminate].
  destruct (csi_get c name) as [csi|] eqn:CG; [|discriminate]. apply OKC in CG. destruct (m_awc csi); [|discriminate]. cbn [span_of].
  destruct (replace_callee_and_args c _ None None _ p) as [[call' a1] p1] eqn:E.
  intros H; inversion H; subst. apply replace_callee_and_args_ns in E; [|exact I].
  rewrite !ns_push_arg, !ns_mk_arg, ns_acc0, Hc in E.
  rewrite ns_mk_ident in E by reflexivity. rewrite ns_dd_paren by exact CG. lia.
Qed.

(** Scalar fields of a call (syntax context, type arguments) carry no reference. *)
Definition call_fields_ok (cx targs : node) : Prop := mu cx = 0 /\ mu targs = 0.

Lemma arg_plain_ns spr e : mu (Node Obj [spr; e]) = mu spr + mu e.
Proof. rewrite ns_node by reflexivity. simpl. lia. Qed.

Theorem call_transform_ns c lo hi cx callee args targs p out tag p' :
  (forall name m, csi_get c name = Some m -> okname (m_dst m)) ->
  is_ns_member callee = false ->
  call_fields_ok cx targs ->
  (is_ident callee = true -> mu callee = 0) ->
  call_transform c (Node (K KCall lo hi) [cx; callee; Node Lst args; targs]) p = (Some (out, tag), p') ->
  mu out = kappa + mu (Node (K KCall lo hi) [cx; callee; Node Lst args; targs]).
Proof.
  intros OKC NSM [Hcx Htg] Hid. unfold call_transform. cbn [call_parts].
  rewrite (ns_node (K KCall lo hi)) by reflexivity. cbn [mul fold_right].
  rewrite (ns_node Lst) by reflexivity.
  destruct (member_parts callee) as [[obj prop]|] eqn:Em.
  - assert (Cm : mu callee = mu obj + mu prop).
    { unfold member_parts in Em. destruct callee as [[k l h| | | | | |] ccs]; try discriminate.
      destruct k; try discriminate. destruct ccs as [|o [|pr [|? ?]]]; try discriminate.
      inversion Em; subst. rewrite ns_node; [simpl; lia | reflexivity | exact NSM]. }
    destruct (ident_name_sym prop) as [name|] eqn:Ep; [|discriminate].
    assert (Pp : mu prop = 0).
    { apply ns_leaf. unfold ident_name_sym in Ep. destruct prop as [[k l h| | | | | |] pcs]; try discriminate.
      destruct k; try discriminate. reflexivity. }
    assert (W : forall member_opt coa out0 tag0 p0,
               member_opt = None ->
               replace_with_member c obj name (span_of prop) (Node (K KCall lo hi) [cx; callee; Node Lst args; targs]) member_opt coa p
                 = (Some (out0, tag0), p0) ->
               mu out0 = kappa + (mu cx + (mu callee + (mul args + (mu targs + 0))))).
    { intros mo coa out0 tag0 p0 -> H0. apply replace_with_member_ns in H0; [|exact OKC|intros m X; discriminate X]. lia. }
    destruct (is_lit obj).
    + destruct (allows_literal_callers c name); [|discriminate]. intros H. eapply W; [reflexivity | exact H].
    + destruct (receiver_kind_ok obj); [intros H; eapply W; [reflexivity | exact H]|].
      destruct (is_kind KMember obj) eqn:Ek; [|discriminate].
      destruct (is_call_or_apply name).
      * (* X.m.call / X.m.apply *)
        unfold replace_prototype, prototype_parts.
        destruct (negb (is_call_or_apply name)); [discriminate|].
        destruct (prototype_method obj) as [[method mspan]|]; [|discriminate]. cbn [call_parts].
        destruct args as [|this rest]; [discriminate|].
        destruct (arg_is_spread this) eqn:Es.
        -- intros H. apply replace_spread_ns in H; [|exact OKC]. rewrite H. lia.
        -- destruct (invalid_args name (this :: rest)); [discriminate|].
           destruct (arg_expr this) as [this_expr|] eqn:Et; [|discriminate].
           destruct (is_lit this_expr && _); [discriminate|].
           unfold mk_call, mk. cbn [fst snd]. intros H.
           apply replace_with_member_ns in H; [|exact OKC|].
           ++ rewrite H. unfold nL.
              assert (Tn : mu this = mu this_expr).
              { unfold arg_expr in Et. destruct this as [[| | | | | |] tcs]; try discriminate.
                destruct tcs as [|spr [|e [|? ?]]]; try discriminate. inversion Et; subst.
                rewrite arg_plain_ns. unfold arg_is_spread in Es.
                destruct spr as [[| | | | | |] scs]; try discriminate Es. reflexivity. }
              rewrite ns_list_cons, Tn. change (mu ctxt0) with 0. change (mu nNul) with 0. lia.
           ++ intros m X. inversion X; subst. unfold is_kind in Ek. unfold is_lit.
              destruct (kind_of m) as [k|]; [|reflexivity]. unfold kind_eqb in Ek.
              destruct (kind_eq_dec KMember k); [subst; reflexivity | discriminate].
      * destruct (negb (member_prop_is_prototype obj)); [|discriminate].
        intros H; eapply W; [reflexivity | exact H].
  - destruct (is_ident callee) eqn:Ei; [|discriminate].
    intros H. apply replace_without_callee_ns in H; [|exact OKC|apply Hid; reflexivity|reflexivity]. lia.
Qed.

(** ** Compound assignment *)
Lemma ns_simple_target t : mu (simple_target_to_expr t) = mu t.
Proof.
  unfold simple_target_to_expr. destruct t as [[k lo hi| | | | | |] cs]; try reflexivity.
  destruct k; try reflexivity. destruct cs as [|cx [|sym [|opt [|ta [|? ?]]]]]; reflexivity.
Qed.

Lemma get_temporal_args c operand span ik a p id a' p' :
  get_temporal c operand span ik a p = (id, a', p') -> a_args a' = a_args a.
Proof.
  unfold get_temporal. destruct (is_lit operand); intros H; inversion H; subst; reflexivity.
Qed.

(** Hoisting moves references out of the target, it neither loses nor duplicates any. *)
Lemma hoist_key_ns c prop span a p prop' a' p' :
  hoist_key c prop span a p = (prop', a', p') ->
  mu prop' + ns_acc a' = mu prop + ns_acc a /\ a_args a' = a_args a.
Proof.
  unfold hoist_key. destruct prop as [[k lo hi| | | | | |] cs]; try solve [intros H; inversion H; subst; split; reflexivity].
  destruct k; try solve [intros H; inversion H; subst; split; reflexivity].
  destruct cs as [|e [|? ?]]; try solve [intros H; inversion H; subst; split; reflexivity].
  destruct (is_ident e || is_lit e); [intros H; inversion H; subst; split; reflexivity|].
  destruct (get_temporal c e span IKExpr a p) as [[id a2] p2] eqn:E.
  intros H; inversion H; subst. pose proof (get_temporal_args _ _ _ _ _ _ _ _ _ E) as A.
  apply get_temporal_ns in E. destruct E as [X _].
  rewrite !(ns_node (K KComputed lo hi)) by reflexivity. cbn [mul fold_right]. split; [lia | exact A].
Qed.

Lemma hoist_member_ns c t span a p t' a' p' :
  is_ns_member t = false ->
  hoist_member c t span a p = Some (t', a', p') ->
  mu t' + ns_acc a' = mu t + ns_acc a /\ a_args a' = a_args a.
Proof.
  intros NSM. unfold hoist_member. destruct t as [[k lo hi| | | | | |] cs]; try discriminate.
  destruct k; try discriminate.
  - destruct cs as [|obj [|prop [|? ?]]]; try discriminate.
    destruct (if (is_ident obj || is_kind KThis obj) && negb (key_hoisted prop) then (obj, a, p)
              else let '(id, a1, p1) := get_temporal c obj span IKExpr a p in
                   (match id with Some i => i | None => obj end, a1, p1)) as [[obj1 a1] p1] eqn:E1.
    destruct (hoist_key c prop span a1 p1) as [[prop1 a2] p2] eqn:E2.
    intros H; inversion H; subst. apply hoist_key_ns in E2. destruct E2 as [X A].
    assert (O : mu obj1 + ns_acc a1 = mu obj + ns_acc a /\ a_args a1 = a_args a).
    { destruct ((is_ident obj || is_kind KThis obj) && negb (key_hoisted prop)); [inversion E1; subst; auto|].
      destruct (get_temporal c obj span IKExpr a p) as [[id a3] p3] eqn:T. inversion E1; subst.
      pose proof (get_temporal_args _ _ _ _ _ _ _ _ _ T) as B. apply get_temporal_ns in T. destruct T as [Y _]. auto. }
    destruct O as [O B].
    assert (N1 : is_ns_ident obj1 = false).
    { cbn in NSM. destruct ((is_ident obj || is_kind KThis obj) && negb (key_hoisted prop)); [inversion E1; subst; exact NSM|].
      destruct (get_temporal c obj span IKExpr a p) as [[id a3] p3] eqn:T. inversion E1; subst.
      eapply get_temporal_not_ns; exact T. }
    rewrite (ns_node (K KMember lo hi) [obj1; prop1]); [|reflexivity|cbn; exact N1].
    rewrite (ns_node (K KMember lo hi) [obj; prop]); [|reflexivity|exact NSM].
    cbn [mul fold_right]. split; [lia | congruence].
  - destruct cs as [|obj [|prop [|? ?]]]; try discriminate.
    destruct (hoist_key c prop span a p) as [[prop1 a2] p2] eqn:E.
    intros H; inversion H; subst. apply hoist_key_ns in E. destruct E as [X A].
    rewrite !(ns_node (K KSuperProp lo hi)) by reflexivity. cbn [mul fold_right]. split; [lia | exact A].
Qed.

Lemma ns_peel_parens : forall n, mu (peel_parens n) = mu n.
Proof.
  apply (node_ind' (fun n => mu (peel_parens n) = mu n)). intros t cs IH.
  destruct t as [k lo hi| | | | | |]; try reflexivity. destruct k; try reflexivity.
  destruct cs as [|e [|? ?]]; try reflexivity.
  cbn [peel_parens]. inversion IH; subst. rewrite (ns_node (K KParen lo hi)) by reflexivity.
  cbn [mul fold_right]. lia.
Qed.

Lemma hoist_target_ns c lhs span p lhs' hoisted p' :
  is_ns_member (if is_kind KParen lhs then peel_parens lhs else lhs) = false ->
  hoist_target c lhs span acc0 p = (lhs', hoisted, p') ->
  mu lhs' + mul (a_assigns hoisted) = mu lhs /\ a_args hoisted = [].
Proof.
  intros NSM. unfold hoist_target.
  set (inner := if is_kind KParen lhs then peel_parens lhs else lhs).
  assert (I : mu inner = mu lhs).
  { unfold inner. destruct (is_kind KParen lhs); [apply ns_peel_parens | reflexivity]. }
  destruct (hoist_member c inner span acc0 p) as [[[t a] q]|] eqn:E.
  - intros H; inversion H; subst. apply hoist_member_ns in E; [|exact NSM]. destruct E as [X A].
    unfold ns_acc in X. rewrite A in X. cbn [acc0 a_args a_assigns mul fold_right] in X.
    assert (W : mu (if is_kind KParen lhs then mk_paren (span_of lhs) t else t) = mu t).
    { destruct (is_kind KParen lhs); [apply ns_mk_paren | reflexivity]. }
    split; [lia | exact A].
  - intros H; inversion H; subst. split; [simpl; lia | reflexivity].
Qed.

(** The compound assignment: one reference more, provided what remains of the target after
    hoisting (it is written twice) carries none. *)
Theorem assign_transform_ns c lo hi opn lhs rhs p out p' :
  okname (plus_name c) ->
  is_ns_member (if is_kind KParen lhs then peel_parens lhs else lhs) = false ->
  mu opn = 0 -> ident_clean rhs ->
  (forall lhs' hoisted p0, hoist_target c lhs (lo, hi) acc0 p = (lhs', hoisted, p0) -> mu lhs' = 0) ->
  assign_transform c (Node (K KAssign lo hi) [opn; lhs; rhs]) p = (Some out, p') ->
  mu out = kappa + mu (Node (K KAssign lo hi) [opn; lhs; rhs]).
Proof.
  intros OKN NSM Hop Hr Hl. unfold assign_transform. destruct (is_pat_target lhs); [discriminate|].
  destruct (hoist_target c lhs (lo, hi) acc0 p) as [[lhs' hoisted] p0] eqn:E.
  pose proof (Hl _ _ _ eq_refl) as L0. apply hoist_target_ns in E; [|exact NSM]. destruct E as [E A].
  set (right := if is_op bin_op "+" rhs then mk_paren (paren_span (span_of rhs)) rhs else rhs).
  assert (Rn : mu right = mu rhs).
  { unfold right. destruct (is_op bin_op "+" rhs); [apply ns_mk_paren | reflexivity]. }
  assert (Rc : ident_clean right).
  { unfold right, ident_clean. destruct (is_op bin_op "+" rhs); [discriminate | exact Hr]. }
  unfold mk_bin, mk. cbn [fst snd].
  destruct (binary_transform c _ p0) as [[e'|] p1] eqn:B; [|discriminate].
  apply binary_transform_ns in B; [|exact OKN| |exact Rc].
  2:{ unfold ident_clean. rewrite ns_simple_target. intros _. exact L0. }
  intros H; inversion H; subst.
  rewrite (ns_node (K KBin lo hi)) in B by reflexivity. cbn [mul fold_right nS] in B.
  rewrite ns_simple_target, L0, Rn in B.
  rewrite (ns_node (K KAssign lo hi)) by reflexivity. cbn [mul fold_right]. rewrite Hop.
  destruct (a_assigns hoisted) as [|h hs] eqn:Eh.
  - rewrite ns_mk_assign, L0, B. cbn [mul fold_right] in E. change (mu (nS "+")) with 0. lia.
  - rewrite ns_mk_paren, ns_mk_seq.
    match goal with |- context [mul ?l] =>
      replace (mul l) with (mul (h :: hs) + mul [mk_assign (lo, hi) "=" lhs' e'])
        by (rewrite <- ns_list_app; reflexivity) end.
    cbn [mul fold_right]. cbn [mul fold_right] in E.
    rewrite ns_mk_assign, L0, B. change (mu (nS "+")) with 0. lia.
Qed.

End Measure.
Arguments ns_node {stop kappa}.
Arguments ns_leaf {stop kappa}.
Arguments ns_lit {stop kappa}.
Arguments ns_list_app {stop kappa}.
Arguments ns_list_cons {stop kappa}.
Arguments ns_mk_ident {stop kappa}.
Arguments ns_mk_binding_ident {stop kappa}.
Arguments ns_mk_ident_name {stop kappa}.
Arguments ns_mk_arg {stop kappa}.
Arguments ns_mk_spread_arg {stop kappa}.
Arguments ns_expr_or_spread {stop kappa}.
Arguments ns_assign_right {stop kappa}.
Arguments ns_mk_assign {stop kappa}.
Arguments ns_mk_bin {stop kappa}.
Arguments ns_mk_member {stop kappa}.
Arguments ns_mk_paren {stop kappa}.
Arguments ns_mk_seq {stop kappa}.
Arguments ns_mk_call {stop kappa}.
Arguments ns_acc0 {stop kappa}.
Arguments ns_push_assign {stop kappa}.
Arguments ns_push_arg {stop kappa}.
Arguments ns_dd_callee {stop kappa okname}.
Arguments ns_dd_call {stop kappa okname}.
Arguments ns_dd_paren {stop kappa okname}.
Arguments get_temporal_ns {stop kappa}.
Arguments get_ident_ns {stop kappa}.
Arguments replace_default_ns {stop kappa}.
Arguments replace_expr_noexpand_ns {stop kappa}.
Arguments replace_arg_noexpand_ns {stop kappa}.
Arguments replace_elems_ns {stop kappa}.
Arguments replace_expr_replace_ns {stop kappa}.
Arguments replace_expr_operand_ns {stop kappa}.
Arguments replace_arg_ns {stop kappa}.
Arguments replace_args_ns {stop kappa}.
Arguments tpl_replace_ns {stop kappa}.
Arguments binary_transform_ns {stop kappa okname}.
Arguments template_transform_ns {stop kappa okname}.
Arguments replace_callee_and_args_ns {stop kappa}.
Arguments ns_insert_this {stop kappa}.
Arguments replace_with_member_ns {stop kappa okname}.
Arguments replace_spread_ns {stop kappa okname}.
Arguments replace_without_callee_ns {stop kappa okname}.
Arguments arg_plain_ns {stop kappa}.
Arguments call_transform_ns {stop kappa okname}.
Arguments ns_simple_target {stop kappa}.
Arguments hoist_key_ns {stop kappa}.
Arguments hoist_member_ns {stop kappa}.
Arguments ns_peel_parens {stop kappa}.
Arguments hoist_target_ns {stop kappa}.
Arguments assign_transform_ns {stop kappa okname}.

(** ** Arrow normalisation adds no reference *)
Lemma ns_node_nostop k t cs : plain (Node t cs) = true -> meas no_stop k (Node t cs) = meas_list no_stop k cs.
Proof.
  unfold plain. intros H. apply andb_true_iff in H. destruct H as [H1 H2].
  apply negb_true_iff in H1. apply negb_true_iff in H2. cbn [meas]. rewrite H1, H2.
  destruct (stop_kind (Node t cs)); reflexivity.
Qed.

Lemma arrow_transform_ns n : ns_count (arrow_transform n) = ns_count n.
Proof.
  unfold ns_count. unfold arrow_transform. destruct n as [[k lo hi| | | | | |] cs]; try reflexivity.
  destruct k; try reflexivity.
  destruct cs as [|cx [|params [|body [|asy [|gen [|tp [|rt [|? ?]]]]]]]]; try reflexivity.
  destruct (is_kind KBlock body); [reflexivity|].
  rewrite !(ns_node_nostop 1 (K KArrow lo hi)) by reflexivity. cbn [meas_list fold_right].
  unfold mk_block, mk_return, mk, nL.
  rewrite (ns_node_nostop 1 (K KBlock _ _)) by reflexivity. cbn [meas_list fold_right].
  rewrite (ns_node_nostop 1 Lst) by reflexivity. cbn [meas_list fold_right].
  rewrite (ns_node_nostop 1 (K KReturn _ _)) by reflexivity. cbn [meas_list fold_right].
  change (meas no_stop 1 ctxt0) with 0. lia.
Qed.

(** ** The names registered for declaration are temporaries, never the hook namespace *)
Definition all_temp (p : pstate) : Prop :=
  Forall (fun x => String.eqb x gen_DD_GLOBAL_NAMESPACE = false) (p_idents p).

Lemma all_temp_init : all_temp p_init.
Proof. constructor. Qed.

Lemma all_temp_reset p : all_temp p -> all_temp (reset_counter p).
Proof. exact (fun H => H). Qed.

Lemma register_ident_temp c n p : all_temp p -> all_temp (register_ident (temp_name c n) p).
Proof.
  unfold all_temp, register_ident. intros H. destruct (existsb _ (p_idents p)); [exact H|].
  cbn [p_idents]. apply Forall_app. split; [exact H|]. constructor; [apply temp_name_not_ns | constructor].
Qed.

Lemma register_variable_temp c id p : all_temp p -> all_temp (register_variable c id p).
Proof.
  unfold register_variable. intros H. destruct (ident_sym id); [|exact H].
  destruct (negb (is_dummy (span_of id)) && String.prefix (var_prefix c) s); exact H.
Qed.

Lemma get_temporal_temp c operand span ik a p id a' p' :
  get_temporal c operand span ik a p = (id, a', p') -> all_temp p -> all_temp p'.
Proof.
  unfold get_temporal. destruct (is_lit operand); [intros H; inversion H; subst; auto|].
  unfold next_ident. cbn [fst snd]. intros H; inversion H; subst. intros T.
  apply register_ident_temp. exact T.
Qed.

Lemma get_ident_temp c operand span ik a p id a' p' :
  get_ident c operand span ik a p = (id, a', p') -> all_temp p -> all_temp p'.
Proof.
  unfold get_ident. destruct (get_temporal c operand span ik a p) as [[i a1] p1] eqn:E.
  intros H; inversion H; subst. eapply get_temporal_temp; exact E.
Qed.

Lemma replace_default_temp c e span ik a p e' a' p' :
  replace_default c e span ik a p = (e', a', p') -> all_temp p -> all_temp p'.
Proof.
  unfold replace_default. destruct (get_ident c e span ik a p) as [[id a1] p1] eqn:E.
  intros H; inversion H; subst. eapply get_ident_temp; exact E.
Qed.

Lemma replace_expr_noexpand_temp c e im span ik a p e' a' p' :
  replace_expr_noexpand c e im span ik a p = (e', a', p') -> all_temp p -> all_temp p'.
Proof.
  unfold replace_expr_noexpand. destruct (is_lit e); [intros H; inversion H; subst; auto|].
  destruct (is_ident e).
  - destruct im; [apply replace_default_temp | intros H; inversion H; subst; auto].
  - destruct (bin_op e) as [op|]; [|apply replace_default_temp].
    destruct (String.eqb op "+"); [intros H; inversion H; subst; auto | apply replace_default_temp].
Qed.

Lemma replace_arg_noexpand_temp c arg im span a p arg' a' p' :
  replace_arg_noexpand c arg im span a p = (arg', a', p') -> all_temp p -> all_temp p'.
Proof.
  unfold replace_arg_noexpand. destruct arg as [[| | | | | |] cs]; try solve [intros H; inversion H; subst; auto].
  destruct cs as [|spr [|e [|? ?]]]; try solve [intros H; inversion H; subst; auto].
  destruct (replace_expr_noexpand c e im span _ a p) as [[e1 a1] p1] eqn:E.
  intros H; inversion H; subst. eapply replace_expr_noexpand_temp; exact E.
Qed.

Lemma replace_elems_temp c im span : forall elems a p elems' a' p',
  replace_elems c elems im span a p = (elems', a', p') -> all_temp p -> all_temp p'.
Proof.
  induction elems as [|el rest IH]; intros a p elems' a' p' H T; simpl in H.
  - inversion H; subst. exact T.
  - destruct (match el with Node Nul _ => (el, a, p) | _ => replace_arg_noexpand c el im span a p end)
      as [[el1 a1] p1] eqn:E1.
    destruct (replace_elems c rest im span a1 p1) as [[rest1 a2] p2] eqn:E2.
    inversion H; subst. eapply IH; [exact E2|].
    destruct el as [[| | | | | |] ecs]; try (eapply replace_arg_noexpand_temp; [exact E1 | exact T]).
    inversion E1; subst. exact T.
Qed.

Lemma replace_expr_temp c e im span ik expand a p e' a' p' :
  replace_expr c e im span ik expand a p = (e', a', p') -> all_temp p -> all_temp p'.
Proof.
  unfold replace_expr.
  destruct (is_lit e || is_ident e); [apply replace_expr_noexpand_temp|].
  destruct (bin_op e); [apply replace_expr_noexpand_temp|].
  destruct e as [[k lo hi| | | | | |] cs]; try apply replace_default_temp.
  destruct k; try apply replace_default_temp.
  destruct cs as [|[[| | | | | |] elems] [|? ?]]; try apply replace_default_temp.
  destruct expand; [|apply replace_default_temp].
  destruct (replace_elems c elems im span a p) as [[elems1 a1] p1] eqn:E.
  intros H; inversion H; subst. eapply replace_elems_temp; exact E.
Qed.

Lemma replace_args_temp c span expand : forall args a p args' a' p',
  replace_args c args span expand a p = (args', a', p') -> all_temp p -> all_temp p'.
Proof.
  induction args as [|x rest IH]; intros a p args' a' p' H T; simpl in H.
  - inversion H; subst. exact T.
  - destruct (replace_arg c x Replace span expand a p) as [[x1 a1] p1] eqn:E1.
    destruct (replace_args c rest span expand a1 p1) as [[rest1 a2] p2] eqn:E2.
    inversion H; subst. eapply IH; [exact E2|].
    unfold replace_arg in E1. destruct x as [[| | | | | |] cs]; try (inversion E1; subst; exact T).
    destruct cs as [|spr [|e [|? ?]]]; try (inversion E1; subst; exact T).
    destruct (replace_expr c e Replace span _ expand a p) as [[e1 a3] p3] eqn:E3.
    inversion E1; subst. eapply replace_expr_temp; [exact E3 | exact T].
Qed.

Lemma tpl_replace_temp c : forall es a p es' a' p',
  tpl_replace c es a p = (es', a', p') -> all_temp p -> all_temp p'.
Proof.
  induction es as [|x rest IH]; intros a p es' a' p' H T; simpl in H.
  - inversion H; subst. exact T.
  - destruct (replace_expr c x Replace (span_of x) IKExpr false a p) as [[x1 a1] p1] eqn:E1.
    destruct (tpl_replace c rest a1 p1) as [[rest1 a2] p2] eqn:E2.
    inversion H; subst. eapply IH; [exact E2|]. eapply replace_expr_temp; [exact E1 | exact T].
Qed.

Lemma binary_transform_temp c e p r p' : binary_transform c e p = (r, p') -> all_temp p -> all_temp p'.
Proof.
  unfold binary_transform. destruct e as [[k lo hi| | | | | |] cs]; try solve [intros H; inversion H; subst; auto].
  destruct k; try solve [intros H; inversion H; subst; auto].
  destruct cs as [|opn [|l [|r0 [|? ?]]]]; try solve [intros H; inversion H; subst; auto].
  destruct (replace_expr c l (get_ident_mode r0) (lo, hi) IKExpr false acc0 p) as [[l' a1] p1] eqn:E1.
  destruct (replace_expr c r0 (get_ident_mode l') (lo, hi) IKExpr false a1 p1) as [[r' a2] p2] eqn:E2.
  intros H T. assert (all_temp p2) by (eapply replace_expr_temp; [exact E2 | eapply replace_expr_temp; [exact E1 | exact T]]).
  destruct (existsb arg_is_nonlit (a_args a2)); inversion H; subst; assumption.
Qed.

Lemma template_transform_temp c e p r p' : template_transform c e p = (r, p') -> all_temp p -> all_temp p'.
Proof.
  unfold template_transform. destruct e as [[k lo hi| | | | | |] cs]; try solve [intros H; inversion H; subst; auto].
  destruct k; try solve [intros H; inversion H; subst; auto].
  destruct cs as [|[[| | | | | |] es] [|quasis [|? ?]]]; try solve [intros H; inversion H; subst; auto].
  destruct (tpl_replace c es acc0 p) as [[es' a] p1] eqn:E.
  intros H; inversion H; subst. eapply tpl_replace_temp; exact E.
Qed.

Lemma hoist_key_temp c prop span a p prop' a' p' :
  hoist_key c prop span a p = (prop', a', p') -> all_temp p -> all_temp p'.
Proof.
  unfold hoist_key. destruct prop as [[k lo hi| | | | | |] cs]; try solve [intros H; inversion H; subst; auto].
  destruct k; try solve [intros H; inversion H; subst; auto].
  destruct cs as [|e [|? ?]]; try solve [intros H; inversion H; subst; auto].
  destruct (is_ident e || is_lit e); [intros H; inversion H; subst; auto|].
  destruct (get_temporal c e span IKExpr a p) as [[id a2] p2] eqn:E.
  intros H; inversion H; subst. eapply get_temporal_temp; exact E.
Qed.

Lemma hoist_target_temp c lhs span a p lhs' a' p' :
  hoist_target c lhs span a p = (lhs', a', p') -> all_temp p -> all_temp p'.
Proof.
  unfold hoist_target. set (inner := if is_kind KParen lhs then peel_parens lhs else lhs).
  destruct (hoist_member c inner span a p) as [[[t a0] q]|] eqn:E; [|intros H; inversion H; subst; auto].
  intros H; inversion H; subst. intros T. unfold hoist_member in E.
  destruct inner as [[k lo hi| | | | | |] cs]; try discriminate. destruct k; try discriminate.
  - destruct cs as [|obj [|prop [|? ?]]]; try discriminate.
    destruct (if (is_ident obj || is_kind KThis obj) && negb (key_hoisted prop) then (obj, a, p)
              else let '(id, a1, p1) := get_temporal c obj span IKExpr a p in
                   (match id with Some i => i | None => obj end, a1, p1)) as [[obj1 a1] p1] eqn:E1.
    destruct (hoist_key c prop span a1 p1) as [[prop1 a2] p2] eqn:E2. inversion E; subst.
    eapply hoist_key_temp; [exact E2|].
    destruct ((is_ident obj || is_kind KThis obj) && negb (key_hoisted prop)); [inversion E1; subst; exact T|].
    destruct (get_temporal c obj span IKExpr a p) as [[id a3] p3] eqn:G. inversion E1; subst.
    eapply get_temporal_temp; [exact G | exact T].
  - destruct cs as [|obj [|prop [|? ?]]]; try discriminate.
    destruct (hoist_key c prop span a p) as [[prop1 a2] p2] eqn:E2. inversion E; subst.
    eapply hoist_key_temp; [exact E2 | exact T].
Qed.

Lemma assign_transform_temp c e p r p' : assign_transform c e p = (r, p') -> all_temp p -> all_temp p'.
Proof.
  unfold assign_transform. destruct e as [[k lo hi| | | | | |] cs]; try solve [intros H; inversion H; subst; auto].
  destruct k; try solve [intros H; inversion H; subst; auto].
  destruct cs as [|opn [|lhs [|rhs [|? ?]]]]; try solve [intros H; inversion H; subst; auto].
  destruct (is_pat_target lhs); [intros H; inversion H; subst; auto|].
  destruct (hoist_target c lhs (lo, hi) acc0 p) as [[lhs' hoisted] p0] eqn:E.
  destruct (binary_transform c _ p0) as [[e'|] p1] eqn:B; intros H; inversion H; subst; intros T;
    (eapply binary_transform_temp; [exact B | eapply hoist_target_temp; [exact E | exact T]]).
Qed.

Lemma replace_callee_and_args_temp c call ic coa a p call' a' p' :
  replace_callee_and_args c call ic coa a p = (call', a', p') -> all_temp p -> all_temp p'.
Proof.
  unfold replace_callee_and_args. destruct call as [[k lo hi| | | | | |] cs]; try solve [intros H; inversion H; subst; auto].
  destruct k; try solve [intros H; inversion H; subst; auto].
  destruct cs as [|cx [|callee [|[[| | | | | |] args] [|targs [|? ?]]]]]; try solve [intros H; inversion H; subst; auto].
  destruct (replace_args c args (lo, hi) _ a p) as [[args1 a1] p1] eqn:E.
  intros H; inversion H; subst. eapply replace_args_temp; exact E.
Qed.

Lemma replace_with_member_temp c recv method mspan call mo coa p r p' :
  replace_with_member c recv method mspan call mo coa p = (r, p') -> all_temp p -> all_temp p'.
Proof.
  unfold replace_with_member. destruct (csi_get c method); [|intros H; inversion H; subst; auto].
  destruct (get_temporal c recv (span_of call) IKExpr acc0 p) as [[id_opt a1] p1] eqn:E1.
  destruct (get_ident c _ (span_of call) IKExpr a1 p1) as [[callee_opt a2] p2] eqn:E2.
  destruct (replace_callee_and_args c call _ coa _ p2) as [[call' a4] p4] eqn:E3.
  intros H; inversion H; subst. intros T.
  eapply replace_callee_and_args_temp; [exact E3|]. eapply get_ident_temp; [exact E2|].
  eapply get_temporal_temp; [exact E1 | exact T].
Qed.

Lemma replace_spread_temp c method call member coa p r p' :
  replace_spread_with_member c method call member coa p = (r, p') -> all_temp p -> all_temp p'.
Proof.
  unfold replace_spread_with_member. destruct (csi_get c method); [|intros H; inversion H; subst; auto].
  destruct (get_ident c member (span_of call) IKExpr acc0 p) as [[callee_opt a1] p1] eqn:E1.
  destruct callee_opt as [cal|].
  - destruct (replace_callee_and_args c call (Some cal) (Some coa) a1 p1) as [[call' a2] p2] eqn:E2.
    intros H; inversion H; subst. intros T. eapply replace_callee_and_args_temp; [exact E2|].
    eapply get_ident_temp; [exact E1 | exact T].
  - intros H; inversion H; subst. intros T. eapply get_ident_temp; [exact E1 | exact T].
Qed.

Lemma replace_without_callee_temp c callee call p r p' :
  replace_without_callee c callee call p = (r, p') -> all_temp p -> all_temp p'.
Proof.
  unfold replace_without_callee. destruct (ident_sym callee); [|intros H; inversion H; subst; auto].
  destruct (csi_get c s) as [csi|]; [|intros H; inversion H; subst; auto].
  destruct (m_awc csi); [|intros H; inversion H; subst; auto].
  destruct (replace_callee_and_args c call None None _ p) as [[call' a1] p1] eqn:E.
  intros H; inversion H; subst. eapply replace_callee_and_args_temp; exact E.
Qed.

Lemma call_transform_temp c call p r p' : call_transform c call p = (r, p') -> all_temp p -> all_temp p'.
Proof.
  unfold call_transform. destruct (call_parts call) as [[[[cx callee] args] targs]|]; [|intros H; inversion H; subst; auto].
  destruct (member_parts callee) as [[obj prop]|].
  - destruct (ident_name_sym prop) as [name|]; [|intros H; inversion H; subst; auto].
    destruct (is_lit obj).
    + destruct (allows_literal_callers c name); [apply replace_with_member_temp | intros H; inversion H; subst; auto].
    + destruct (receiver_kind_ok obj); [apply replace_with_member_temp|].
      destruct (is_kind KMember obj); [|intros H; inversion H; subst; auto].
      destruct (is_call_or_apply name).
      * unfold replace_prototype. destruct (prototype_parts c call obj name);
          [intros H; inversion H; subst; auto | apply replace_spread_temp | apply replace_with_member_temp].
      * destruct (negb (member_prop_is_prototype obj)); [apply replace_with_member_temp | intros H; inversion H; subst; auto].
  - destruct (is_ident callee); [apply replace_without_callee_temp | intros H; inversion H; subst; auto].
Qed.

Lemma oc_get_ident_temp c operand s id s' :
  oc_get_ident c operand s = (id, s') -> all_temp (oc_p s) -> all_temp (oc_p s').
Proof.
  unfold oc_get_ident. destruct (get_ident c operand DUMMY IKExpr _ (oc_p s)) as [[i a] p] eqn:E.
  intros H; inversion H; subst. cbn [oc_p]. eapply get_ident_temp; exact E.
Qed.

Lemma oc_call_from_base_temp c base optional s r s' :
  oc_call_from_base c base optional s = (r, s') -> all_temp (oc_p s) -> all_temp (oc_p s').
Proof.
  unfold oc_call_from_base. destruct base as [[k lo hi| | | | | |] cs]; try solve [intros H; inversion H; subst; auto].
  destruct k; try solve [intros H; inversion H; subst; auto].
  destruct cs as [|cx [|callee [|[[| | | | | |] args] [|targs [|? ?]]]]]; try solve [intros H; inversion H; subst; auto].
  destruct optional; [|intros H; inversion H; subst; auto].
  destruct (oc_callee_member callee) as [[[obj prop] mopt]|].
  - destruct (oc_get_ident c obj s) as [[oid|] s1] eqn:E1.
    + destruct (oc_get_ident c _ s1) as [[mid|] s2] eqn:E2; intros H; inversion H; subst; intros T;
        cbn [oc_set_new_ident oc_p]; (eapply oc_get_ident_temp; [exact E2 | eapply oc_get_ident_temp; [exact E1 | exact T]]).
    + intros H; inversion H; subst. intros T. eapply oc_get_ident_temp; [exact E1 | exact T].
  - destruct (oc_get_ident c callee s) as [[nid|] s1] eqn:E1.
    + destruct (oc_assigns s1); [|destruct (is_kind KSuperProp _)]; intros H; inversion H; subst; intros T; cbn [oc_set_new_ident oc_p];
        (eapply oc_get_ident_temp; [exact E1 | exact T]).
    + intros H; inversion H; subst. intros T. eapply oc_get_ident_temp; [exact E1 | exact T].
Qed.

Lemma oc_member_from_base_temp c base optional s r s' :
  oc_member_from_base c base optional s = (r, s') -> all_temp (oc_p s) -> all_temp (oc_p s').
Proof.
  unfold oc_member_from_base. destruct base as [[k lo hi| | | | | |] cs]; try solve [intros H; inversion H; subst; auto].
  destruct k; try solve [intros H; inversion H; subst; auto].
  destruct cs as [|obj [|prop [|? ?]]]; try solve [intros H; inversion H; subst; auto].
  destruct optional; [|intros H; inversion H; subst; auto].
  destruct (oc_get_ident c obj s) as [[nid|] s1] eqn:E1; intros H; inversion H; subst; intros T;
    cbn [oc_set_new_ident oc_p]; (eapply oc_get_ident_temp; [exact E1 | exact T]).
Qed.

Lemma oc_visit_temp c : forall fuel n s n' s',
  oc_visit c fuel n s = Some (n', s') -> all_temp (oc_p s) -> all_temp (oc_p s').
Proof.
  induction fuel as [|f IH]; intros n s n' s' H T; [discriminate|].
  cbn [oc_visit] in H.
  set (spine := fun (n : node) (s : ocstate) =>
    match n with
    | Node (K KOptChain lo hi) [opt; Node (K KCall clo chi) [cx; callee; args; targs]] =>
        match oc_visit c f callee s with
        | Some (callee', s') =>
            Some (Node (K KOptChain lo hi) [opt; Node (K KCall clo chi) [cx; callee'; args; targs]], s')
        | None => None
        end
    | Node (K KOptChain lo hi) [opt; Node (K KMember mlo mhi) [obj; prop]] =>
        match oc_visit c f obj s with
        | Some (obj', s') =>
            Some (Node (K KOptChain lo hi) [opt; Node (K KMember mlo mhi) [obj'; prop]], s')
        | None => None
        end
    | Node (K KCall lo hi) [cx; callee; args; targs] =>
        if is_kind KSuper callee || is_kind KImport callee then Some (n, s)
        else
          match oc_visit c f callee s with
          | Some (callee', s') => Some (Node (K KCall lo hi) [cx; callee'; args; targs], s')
          | None => None
          end
    | Node (K KMember lo hi) [obj; prop] =>
        match oc_visit c f obj s with
        | Some (obj', s') => Some (Node (K KMember lo hi) [obj'; prop], s')
        | None => None
        end
    | _ => Some (n, s)
    end) in *.
  assert (SP : forall x sx x' sx', spine x sx = Some (x', sx') -> all_temp (oc_p sx) -> all_temp (oc_p sx')).
  { intros x sx x' sx' E Tx. unfold spine in E.
    repeat match type of E with
           | match oc_visit c f ?y ?z with _ => _ end = _ =>
               let Q := fresh "Q" in destruct (oc_visit c f y z) as [[? ?]|] eqn:Q; [|discriminate];
               inversion E; subst; eapply IH; [exact Q | exact Tx]
           | match ?d with _ => _ end = _ => destruct d; try discriminate
           | (if ?d then _ else _) = _ => destruct d
           end; try (inversion E; subst; exact Tx). }
  destruct (optchain_parts n) as [[optional base]|].
  - destruct (oc_found s).
    + destruct (if is_kind KCall base then oc_call_from_base c base optional s
                else oc_member_from_base c base optional s) as [repl s1] eqn:Er.
      assert (T1 : all_temp (oc_p s1)).
      { destruct (is_kind KCall base); [eapply oc_call_from_base_temp | eapply oc_member_from_base_temp]; eassumption. }
      destruct optional; [inversion H; subst; exact T1 | eapply SP; [exact H | exact T1]].
    + destruct (oc_is_target c n); [eapply IH; [exact H | exact T] | eapply SP; [exact H | exact T]].
  - eapply SP; [exact H | exact T].
Qed.

Lemma optchain_transform_temp c fuel e p e' md p' :
  optchain_transform c fuel e p = Some (e', md, p') -> all_temp p -> all_temp p'.
Proof.
  unfold optchain_transform. destruct (oc_visit c fuel e _) as [[e1 s]|] eqn:E; [|discriminate].
  intros H T. assert (all_temp (oc_p s)) by (eapply oc_visit_temp; [exact E | exact T]).
  destruct (oc_assigns s); [inversion H; subst; assumption|].
  destruct (oc_new_ident s); inversion H; subst; assumption.
Qed.

(** Whatever is visited: the names registered for declaration stay temporaries' names. *)
Theorem op_visit_temp c : forall fuel root n s n' s',
  op_visit c fuel root n s = Some (n', s') -> all_temp (o_p s) -> all_temp (o_p s').
Proof.
  induction fuel as [|f IH]; intros root n s n' s' H; [discriminate|].
  assert (D : forall r x s x' s', default_visit_with (op_visit c f r) x s = Some (x', s') ->
                                  all_temp (o_p s) -> all_temp (o_p s')).
  { intros r x s0 x' s0'. apply (default_visit_rel (op_visit c f r) (fun a b => all_temp (o_p a) -> all_temp (o_p b))).
    - auto.
    - auto.
    - intros y sy y' sy'. apply IH. }
  assert (LV : forall r s0, all_temp (o_p s0) -> all_temp (o_p (o_leave r s0))).
  { intros r s0 T. destruct r; [exact T | exact T]. }
  cbn [op_visit] in H. destruct (classify n).
  - inversion H; subst; auto.
  - inversion H; subst. cbn [o_with_p o_p]. apply register_variable_temp.
  - destruct (plus_enabled c); [|eapply D; exact H].
    destruct (default_visit_with (op_visit c f false) n s) as [[n1 s1]|] eqn:E; [|discriminate].
    inversion H; subst. intros T. apply LV. apply (D _ _ _ _ _ E) in T.
    unfold bin_step. destruct (is_op bin_op "+" n1); [|exact T].
    destruct (binary_transform c n1 (o_p s1)) as [[e'|] p2] eqn:B; cbn [snd o_update o_with_p o_p];
      (eapply binary_transform_temp; [exact B | exact T]).
  - destruct (plus_enabled c); [|eapply D; exact H].
    destruct (default_visit_with (op_visit c f false) n s) as [[n1 s1]|] eqn:E; [|discriminate].
    inversion H; subst. intros T. apply LV. apply (D _ _ _ _ _ E) in T.
    unfold assign_step. destruct (is_op assign_op "+=" n1); [|exact T].
    destruct (assign_transform c n1 (o_p s1)) as [[e'|] p2] eqn:B; cbn [snd o_update o_with_p o_p];
      (eapply assign_transform_temp; [exact B | exact T]).
  - destruct (tpl_enabled c); [|eapply D; exact H].
    destruct (tpl_instrumentable n); [|inversion H; subst; auto].
    destruct (default_visit_with (op_visit c f false) n s) as [[n1 s1]|] eqn:E; [|discriminate].
    inversion H; subst. intros T. apply LV. apply (D _ _ _ _ _ E) in T.
    unfold tpl_step. destruct (template_transform c n1 (o_p s1)) as [[e'|] p2] eqn:B; cbn [snd o_update o_with_p o_p];
      (eapply template_transform_temp; [exact B | exact T]).
  - destruct (default_visit_with (op_visit c f false) n s) as [[n1 s1]|] eqn:E; [|discriminate].
    inversion H; subst. intros T. apply LV. apply (D _ _ _ _ _ E) in T.
    unfold call_step. destruct (callee_is_expr n1); [|exact T].
    destruct (call_transform c n1 (o_p s1)) as [[[e' tag]|] p2] eqn:B; cbn [snd o_update o_with_p o_p];
      (eapply call_transform_temp; [exact B | exact T]).
  - destruct (optchain_transform c f n (o_p s)) as [[[n1 md] p1]|] eqn:E; [|discriminate].
    destruct (struct_level_with c (op_visit c f false) n1 (o_with_p p1 s)) as [[n2 s3]|] eqn:E2; [|discriminate].
    inversion H; subst. intros T. apply LV.
    assert (T1 : all_temp (o_p (o_with_p p1 s))) by (cbn [o_with_p o_p]; eapply optchain_transform_temp; [exact E | exact T]).
    unfold struct_level_with in E2. destruct (classify n1);
      try (inversion E2; subst; first [exact T1 | cbn [o_with_p o_p]; apply register_variable_temp; exact T1]);
      (eapply D; [exact E2 | exact T1]).
  - destruct (is_op unary_op "delete" n); [inversion H; subst; auto | eapply D; exact H].
  - inversion H; subst; auto.
  - inversion H; subst; auto.
  - eapply D; exact H.
Qed.
