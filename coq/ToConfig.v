(** * Model of [RewriterConfig::to_config] (src/lib_wasm.rs), [CsiMethod::new], [rnd_string],
    [TelemetryVerbosity::parse] and the prologue text of [generate_prefix_stmts].
    The random source of [rnd_string] is an explicit oracle ([rnd i] = the i-th draw). *)
From Coq Require Import String List NArith Bool Ascii Arith.
From IastRw Require Import Ast Generated Config.
Import ListNotations.
Local Open Scope string_scope.

Record raw_method := {
  rm_src : string; rm_dst : option string; rm_operator : option bool; rm_awc : option bool }.

Record raw_config := {
  r_chain : option bool; r_comments : option bool; r_prefix : option string;
  r_methods_opt : option (list raw_method); r_verbosity : option string; r_literals : option bool }.

Definition raw_default : raw_config :=
  {| r_chain := None; r_comments := None; r_prefix := None; r_methods_opt := None;
     r_verbosity := None; r_literals := None |}.

Definition r_methods (r : raw_config) : list raw_method :=
  match r_methods_opt r with Some l => l | None => [] end.

Definition opt_default {A} (d : A) (o : option A) : A := match o with Some x => x | None => d end.

(** [CsiMethod::new] *)
Definition method_of_raw (m : raw_method) : csi_method :=
  {| m_src := rm_src m;
     m_dst := opt_default (rm_src m) (rm_dst m);
     m_operator := opt_default gen_default_operator (rm_operator m);
     m_awc := opt_default gen_default_awc (rm_awc m) |}.

(** [rnd_string]: [len] draws from the alphabet. *)
Definition nth_char (s : string) (i : nat) : ascii :=
  match String.get i s with Some ch => ch | None => "a"%char end.

Fixpoint rnd_chars (rnd : nat -> nat) (alphabet : string) (i n : nat) : string :=
  match n with
  | 0 => EmptyString
  | S n' => String (nth_char alphabet (rnd i mod String.length alphabet)) (rnd_chars rnd alphabet (S i) n')
  end.

Definition rnd_string (rnd : nat -> nat) (len : nat) : string := rnd_chars rnd gen_rnd_alphabet 0 len.

(** ASCII upper-casing (the four recognised words are ASCII; Rust's [to_uppercase] is Unicode
    aware, which only matters for exotic spellings such as a ligature -- not modelled). *)
Definition upper_ascii (ch : ascii) : ascii :=
  let n := nat_of_ascii ch in
  if (Nat.leb 97 n && Nat.leb n 122)%bool then ascii_of_nat (n - 32) else ch.

Fixpoint upper (s : string) : string :=
  match s with EmptyString => EmptyString | String ch r => String (upper_ascii ch) (upper r) end.

Definition verbosity_of_name (s : string) : verbosity :=
  if String.eqb s "Off" then VOff else if String.eqb s "Mandatory" then VMandatory
  else if String.eqb s "Debug" then VDebug else VInformation.

Fixpoint assoc_string (k : string) (t : list (string * string)) : option string :=
  match t with [] => None | (a, b) :: t' => if String.eqb k a then Some b else assoc_string k t' end.

(** [TelemetryVerbosity::parse] with the generated table. *)
Definition parse_verbosity (o : option string) : verbosity :=
  match o with
  | None => verbosity_of_name gen_verbosity_absent
  | Some v =>
      let key := if gen_verbosity_uppercases then upper v else v in
      match assoc_string key gen_verbosity_table with
      | Some name => verbosity_of_name name
      | None => verbosity_of_name gen_verbosity_fallback
      end
  end.

(** The prologue statements are produced by swc's parser from a text; [parse_prologue] stands for it. *)
Fixpoint join (sep : string) (l : list string) : string :=
  match l with [] => "" | [x] => x | x :: r => x ++ sep ++ join sep r end.

Fixpoint replace_first (pat repl s : string) {struct s} : string :=
  if String.prefix pat s then repl ++ substring (String.length pat) (String.length s - String.length pat) s
  else match s with EmptyString => EmptyString | String ch r => String ch (replace_first pat repl r) end.

Fixpoint subst1 (fmt arg : string) : string :=
  match fmt with
  | EmptyString => EmptyString
  | String "{" (String "}" rest) => arg ++ rest
  | String ch rest => String ch (subst1 rest arg)
  end.

Definition prologue_text (methods : list csi_method) : string :=
  replace_first gen_prologue_placeholder
                (join gen_prologue_join (map (fun m => subst1 gen_prologue_entry_format (m_dst m)) methods))
                gen_prologue_template.

Definition to_config_with (parse_prologue : string -> list node) (rnd : nat -> nat) (r : raw_config) : config :=
  let methods := map method_of_raw (r_methods r) in
  {| c_prefix := match r_prefix r with Some p => p | None => rnd_string rnd (N.to_nat gen_default_prefix_len) end;
     c_methods := methods;
     c_lit_callers := match r_methods_opt r with Some _ => gen_lit_callers | None => [] end;
     c_verbosity := parse_verbosity (r_verbosity r);
     c_literals := opt_default gen_default_literals (r_literals r);
     c_chain := opt_default gen_default_chain (r_chain r);
     c_comments := opt_default gen_default_comments (r_comments r);
     c_prefix_stmts := parse_prologue (prologue_text methods) |}.

Definition to_config (rnd : nat -> nat) (r : raw_config) : config := to_config_with (fun _ => []) rnd r.
