(** * The optional call of a rewritten chain keeps its receiver (C01, finding 17d).
    For [o.m?.(args)], [o?.m?.(args)] and [(o.m)?.(args)] the model (like the code since 50cf4f0) captures the
    receiver, then the -- possibly optional -- member access ON THE CAPTURED RECEIVER, and calls the captured
    function with the captured receiver as its [this]. *)
From Coq Require Import String List NArith Bool Lia.
From IastRw Require Import Ast Generated Config Model P_Local.
Import ListNotations.
Local Open Scope string_scope.
Local Open Scope list_scope.

Lemma oc_get_ident_spec c operand s id s' :
  oc_get_ident c operand s = (Some id, s') ->
  is_lit operand = false /\
  id = mk_ident DUMMY (temp_name c (p_ctr (oc_p s))) /\
  oc_assigns s' = oc_assigns s ++
                  [mk_assign DUMMY "=" (mk_binding_ident DUMMY (temp_name c (p_ctr (oc_p s)))) (assign_right operand IKExpr)] /\
  p_ctr (oc_p s') = N.succ (p_ctr (oc_p s)) /\
  oc_new_ident s' = oc_new_ident s.
Proof.
  unfold oc_get_ident, get_ident.
  destruct (get_temporal c operand DUMMY IKExpr {| a_assigns := oc_assigns s; a_args := [] |} (oc_p s)) as [[i a1] p1] eqn:E.
  intros H. inversion H; subst. clear H.
  apply get_temporal_spec in E. destruct E as [(_ & X & _) | (L & X & A & _ & C & _)]; [discriminate X|]. inversion X; subst id. clear X.
  cbn [oc_assigns oc_p oc_new_ident a_assigns a_args push_arg] in *.
  split; [exact L|]. split; [reflexivity|]. split; [exact A|]. split; [exact C | reflexivity].
Qed.

Theorem optional_call_keeps_receiver c lo hi cx callee args targs s r s' obj prop mopt :
  oc_callee_member callee = Some (obj, prop, mopt) ->
  oc_call_from_base c (Node (K KCall lo hi) [cx; callee; Node Lst args; targs]) true s = (Some r, s') ->
  let t_obj := temp_name c (p_ctr (oc_p s)) in
  let t_fun := temp_name c (N.succ (p_ctr (oc_p s))) in
  let access := if mopt then mk KOptChain DUMMY [nB true; mk_member DUMMY (mk_ident DUMMY t_obj) prop]
                else mk_member DUMMY (mk_ident DUMMY t_obj) prop in
  (* the call: t_fun.call(t_obj, args...) *)
  r = mk KCall DUMMY [cx; mk_member DUMMY (mk_ident DUMMY t_fun) (mk_ident_name DUMMY "call");
                      Node Lst (mk_arg (mk_ident DUMMY t_obj) :: args); targs] /\
  (* what runs before it: t_obj = obj, t_fun = t_obj.prop (or t_obj?.prop) -- each evaluated once *)
  oc_assigns s' = oc_assigns s ++
    [mk_assign DUMMY "=" (mk_binding_ident DUMMY t_obj) (assign_right obj IKExpr);
     mk_assign DUMMY "=" (mk_binding_ident DUMMY t_fun) (assign_right access IKExpr)] /\
  (* the guard of the chain tests the captured function *)
  oc_new_ident s' = Some (mk_ident DUMMY t_fun).
Proof.
  intros CM H. cbn zeta. unfold oc_call_from_base in H. rewrite CM in H.
  destruct (oc_get_ident c obj s) as [[oid|] s1] eqn:E1; [|discriminate H].
  destruct (oc_get_ident c _ s1) as [[mid|] s2] eqn:E2; [|discriminate H].
  inversion H; subst r s'. clear H.
  destruct (oc_get_ident_spec _ _ _ _ _ E1) as (_ & -> & A1 & C1 & _).
  destruct (oc_get_ident_spec _ _ _ _ _ E2) as (_ & -> & A2 & _ & _).
  rewrite C1 in *. cbn [oc_set_new_ident oc_assigns oc_new_ident].
  split; [reflexivity|]. split; [|reflexivity].
  rewrite A2, A1, <- app_assoc. reflexivity.
Qed.
