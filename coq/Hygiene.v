(** * C06 -- hygiene of injected temporaries (specification side, on an OUTPUT tree).

    A temporary is an identifier with the reserved prefix.  Injected occurrences carry swc's dummy
    span; an identifier with the reserved prefix and a real span comes from the user's input.
    [hygiene_issues] lists every violation found:
    - ["undeclared"]   a temporary used in a block's own region (the block minus nested blocks)
                       that is not declared by that block's injected [let] (or used outside any block);
    - ["dup-decl"]     the injected [let] declares a name twice;
    - ["crossed"]      a temporary separated from its [let] by a function boundary (parameter
                       list, non-static class field initializer): not the same activation;
    - ["clobber"]      an injected sequence nested inside another assigns a temporary the outer
                       one also assigns (the outer value is still live);
    - ["dup-assign"]   one injected sequence assigns the same temporary twice;
    - ["unassigned"]   a temporary read in an injected sequence that neither it nor an enclosing
                       sequence has assigned before;
    - ["user-clash"]   a user identifier (real span) equal to a name declared by an injected [let],
                       inside that block or in the parameter list / catch parameter it belongs to. *)
From Coq Require Import String List NArith Bool.
From IastRw Require Import Ast Generated Directives Erase.
Import ListNotations.
Local Open Scope string_scope.
Local Open Scope list_scope.

Definition mem_str (s : string) (l : list string) : bool := existsb (String.eqb s) l.

Definition reserved_ident (vp : string) (n : node) : option (string * bool) :=
  (* name, injected? *)
  match n with
  | Node (K KIdent lo hi) _ =>
      match ident_sym n with
      | Some s => if String.prefix vp s then Some (s, is_dummy (lo, hi)) else None
      | None => None
      end
  | _ => None
  end.

(** Names declared by the injected let of a statement list (first statement after the directives). *)
Definition let_names (vp : string) (stmts : list node) : list string :=
  match after_directives stmts with
  | (Node (K KVarDecl _ _) [_; _; _; Node Lst decls]) as s :: _ =>
      if is_injected_let vp s
      then flat_map (fun d => match d with
                              | Node (K KVarDeclarator _ _) (id :: _) =>
                                  match ident_sym id with Some x => [x] | None => [] end
                              | _ => []
                              end) decls
      else []
  | _ => []
  end.

Fixpoint has_dup (l : list string) : bool :=
  match l with
  | [] => false
  | x :: rest => mem_str x rest || has_dup rest
  end.

Record hctx := {
  h_decl : option (list string);   (* names declared by the innermost enclosing block; None = no block *)
  h_crossed : option string;       (* crossed a function boundary since that block: the label of the issue *)
  h_assigned : list string;        (* temporaries assigned by the enclosing injected sequences, so far *)
  h_live : list string             (* temporaries assigned by enclosing injected sequences (all of them) *)
}.

Definition issue := (string * string)%type.

(** Temporaries assigned by the leading assignments of an injected sequence. *)
Definition seq_assigned (vp : string) (es : list node) : list string :=
  match split_injected vp es with
  | Some (asg, _) => map fst asg
  | None => []
  end.

Fixpoint hyg (vp : string) (h : hctx) (n : node) {struct n} : list issue :=
  let kids (h' : hctx) :=
    (fix go (l : list node) : list issue :=
       match l with [] => [] | c :: l' => hyg vp h' c ++ go l' end) in
  match reserved_ident vp n with
  | Some (name, true) =>
      (match h_decl h with
       | Some d => if mem_str name d then [] else [("undeclared", name)]
       | None => [("undeclared", name)]
       end) ++
      (match h_crossed h with Some lbl => [(lbl, name)] | None => [] end)
  | Some (name, false) => []     (* user identifiers are judged by [clash] below *)
  | None =>
      match n with
      | Node (K KBlock _ _) [cx; Node Lst stmts] =>
          let d := let_names vp stmts in
          (if has_dup d then [("dup-decl", "")] else []) ++
          kids {| h_decl := Some d; h_crossed := None; h_assigned := []; h_live := [] |} stmts
      | Node (K KParam _ _) cs =>
          kids {| h_decl := h_decl h; h_crossed := Some "crossed"; h_assigned := h_assigned h; h_live := h_live h |} cs
      | Node (K KArrow _ _) (cx :: Node Lst params :: rest) =>
          (* the parameters of an arrow function are patterns without a Parameter node: their defaults run in the
             arrow's activation (they are a documented exclusion: nothing is injected there) *)
          kids {| h_decl := h_decl h; h_crossed := Some "crossed-arrow-parameter"; h_assigned := h_assigned h; h_live := h_live h |} params ++
          kids h rest
      | Node (K KClassProp _ _) (key :: value :: ta :: Node (Bln false) [] :: rest) =>
          hyg vp h key ++
          hyg vp {| h_decl := h_decl h; h_crossed := Some "crossed"; h_assigned := h_assigned h; h_live := h_live h |} value
      | Node (K KPrivateProp _ _) (cx :: key :: value :: ta :: Node (Bln false) [] :: rest) =>
          hyg vp {| h_decl := h_decl h; h_crossed := Some "crossed"; h_assigned := h_assigned h; h_live := h_live h |} value
      | Node (K KSetterProp _ _) [key; this_param; param; body] =>
          hyg vp h key ++
          hyg vp {| h_decl := h_decl h; h_crossed := Some "crossed"; h_assigned := h_assigned h; h_live := h_live h |} param ++
          hyg vp h body
      | Node (K KParen _ _) [Node (K KSeq _ _) [Node Lst es]] =>
          match split_injected vp es with
          | Some ((_ :: _) as asg, last) =>
              let mine := map fst asg in
              (if has_dup mine then [("dup-assign", "")] else []) ++
              (if existsb (fun x => mem_str x (h_live h)) mine then [("clobber", "")] else []) ++
              (* assignments in order: the right-hand side sees what was assigned before it *)
              (fix go (l : list node) (done : list string) : list issue :=
                 match l with
                 | [] => []
                 | [lastx] =>
                     hyg vp {| h_decl := h_decl h; h_crossed := h_crossed h;
                               h_assigned := done ++ h_assigned h; h_live := mine ++ h_live h |} lastx
                 | (Node (K KAssign _ _) [_; lhs; rhs]) :: l' =>
                     hyg vp {| h_decl := h_decl h; h_crossed := h_crossed h;
                               h_assigned := done ++ h_assigned h; h_live := mine ++ h_live h |} rhs
                     ++ (match ident_sym lhs with
                         | Some t =>
                             (match h_decl h with
                              | Some d => if mem_str t d then [] else [("undeclared", t)]
                              | None => [("undeclared", t)]
                              end) ++
                             (match h_crossed h with Some lbl => [(lbl, t)] | None => [] end) ++
                             go l' (t :: done)
                         | None => go l' done
                         end)
                 | x :: l' => hyg vp h x ++ go l' done
                 end) es []
          | _ => kids h es
          end
      | Node _ cs => kids h cs
      end
  end.

(** Reads of temporaries that were never assigned by an enclosing sequence. *)
Fixpoint unassigned_reads (vp : string) (assigned : list string) (n : node) {struct n} : list issue :=
  let kids (a : list string) :=
    (fix go (l : list node) : list issue :=
       match l with [] => [] | c :: l' => unassigned_reads vp a c ++ go l' end) in
  match reserved_ident vp n with
  | Some (name, true) => if mem_str name assigned then [] else [("unassigned", name)]
  | Some (_, false) => []
  | None =>
      match n with
      | Node (K KVarDeclarator _ _) (id :: rest) =>
          (* the injected let itself is a declaration, not a read *)
          match reserved_ident vp id with
          | Some _ => kids assigned rest
          | None => kids assigned (id :: rest)
          end
      | Node (K KParen _ _) [Node (K KSeq _ _) [Node Lst es]] =>
          match split_injected vp es with
          | Some ((_ :: _), _) =>
              (fix go (l : list node) (a : list string) : list issue :=
                 match l with
                 | [] => []
                 | [lastx] => unassigned_reads vp a lastx
                 | (Node (K KAssign _ _) [_; lhs; rhs]) :: l' =>
                     unassigned_reads vp a rhs ++
                     go l' (match ident_sym lhs with Some t => t :: a | None => a end)
                 | x :: l' => unassigned_reads vp a x ++ go l' a
                 end) es assigned
          | _ => kids assigned es
          end
      | Node (K KBlock _ _) cs => kids [] cs      (* a new activation region starts empty *)
      | Node _ cs => kids assigned cs
      end
  end.

(** User identifiers clashing with injected names. *)
Fixpoint user_idents (vp : string) (n : node) : list string :=
  match reserved_ident vp n with
  | Some (name, false) => [name]
  | Some (_, true) => []
  | None =>
      match n with
      | Node _ cs =>
          (fix go (l : list node) : list string :=
             match l with [] => [] | c :: l' => user_idents vp c ++ go l' end) cs
      end
  end.

Definition block_let_names (vp : string) (b : node) : list string :=
  match b with
  | Node (K KBlock _ _) [_; Node Lst stmts] => let_names vp stmts
  | _ => []
  end.

Definition clash_between (vp : string) (scope : list node) (body : node) : list issue :=
  let d := block_let_names vp body in
  match d with
  | [] => []
  | _ => map (fun x => ("user-clash", x))
             (filter (fun x => mem_str x d) (flat_map (user_idents vp) (body :: scope)))
  end.

Fixpoint clashes (vp : string) (n : node) : list issue :=
  (match n with
   | Node (K KBlock _ _) _ => clash_between vp [] n
   | Node (K KFnDecl _ _) [_; _; params; _; _; body; _; _; _; _] => clash_between vp [params] body
   | Node (K KFnExpr _ _) [_; params; _; _; body; _; _; _; _] => clash_between vp [params] body
   | Node (K KArrow _ _) [_; params; body; _; _; _; _] => clash_between vp [params] body
   | Node (K KClassMethod _ _) (_ :: Node Obj (params :: _ :: _ :: _ :: body :: _) :: _) =>
       clash_between vp [params] body
   | Node (K KPrivateMethod _ _) (_ :: _ :: Node Obj (params :: _ :: _ :: _ :: body :: _) :: _) =>
       clash_between vp [params] body
   | Node (K KConstructor _ _) [_; _; params; body; _; _] => clash_between vp [params] body
   | Node (K KMethodProp _ _) (_ :: params :: _ :: _ :: body :: _) => clash_between vp [params] body
   | Node (K KSetterProp _ _) [_; _; param; body] => clash_between vp [param] body
   | Node (K KCatch _ _) [param; body] => clash_between vp [param] body
   | _ => []
   end) ++
  match n with
  | Node _ cs =>
      (fix go (l : list node) : list issue :=
         match l with [] => [] | c :: l' => clashes vp c ++ go l' end) cs
  end.

Definition hygiene_issues (vp : string) (out : node) : list issue :=
  hyg vp {| h_decl := None; h_crossed := None; h_assigned := []; h_live := [] |} out
  ++ unassigned_reads vp [] out
  ++ clashes vp out.
