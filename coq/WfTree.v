(** * Shape conditions under which the global counting theorem is stated (C15).
    They hold of every tree swc's parser produces for programs without optional chaining; the check
    evaluates the (extracted) predicate on every input tree it uses. *)
From Coq Require Import String List NArith Bool.
From IastRw Require Import Ast Generated.
Import ListNotations.
Local Open Scope string_scope.

(** A member property is a name (leaf) or a computed key with one expression. *)
Definition prop_ok (prop : node) : bool :=
  leaf prop || match prop with Node (K KComputed _ _) [_] => true | _ => false end.

Definition member_like_ok (t : node) : bool :=
  match t with
  | Node (K KMember _ _) [_; prop] => prop_ok prop
  | Node (K KSuperProp _ _) [obj; prop] => leaf obj && prop_ok prop
  | _ => false
  end.

(** The target of a compound assignment: identifier, member, super property, or one of those in parentheses. *)
Fixpoint target_ok (lhs : node) : bool :=
  is_ident lhs || member_like_ok lhs ||
  match lhs with
  | Node (K KParen _ _) [e] => target_ok e
  | _ => false
  end.

Definition wf_node (n : node) : bool :=
  match n with
  | Node (K KTaggedTpl _ _) [_; _; _; x] => is_kind KTpl x
  | Node (K KCall _ _) [cx; _; Node Lst _; targs] => leaf cx && leaf targs
  | Node (K KCall _ _) _ => false
  | Node (K KAssign _ _) [Node (Str op) []; lhs; _] => if String.eqb op "+=" then target_ok lhs else true
  | Node (K KAssign _ _) _ => false
  | Node (K KOptChain _ _) _ => false          (* fragment without optional chaining *)
  | _ => true
  end.

Fixpoint wf_all (n : node) : bool :=
  wf_node n &&
  match n with Node _ cs =>
    (fix go (l : list node) : bool := match l with [] => true | c :: l' => wf_all c && go l' end) cs
  end.

(** Does a node of kind [k] occur in the tree? (used to tell the fragment of the theorem at run time) *)
Fixpoint has_kind (k : kind) (n : node) : bool :=
  is_kind k n ||
  match n with Node _ cs =>
    (fix go (l : list node) : bool := match l with [] => false | c :: l' => has_kind k c || go l' end) cs
  end.
Definition has_optchain (n : node) : bool := has_kind KOptChain n.
