(** * C02 -- properties of the eraser. *)
From Coq Require Import String List NArith Bool Lia.
From IastRw Require Import Ast Generated Config Model HookSites Directives Erase.
Import ListNotations.

Lemma kind_eqb_refl k : kind_eqb k k = true.
Proof. unfold kind_eqb. destruct (kind_eq_dec k k); [reflexivity | contradiction]. Qed.

Lemma tag_eqb_nospan_refl t : tag_eqb_nospan t t = true.
Proof.
  destruct t; simpl; try apply kind_eqb_refl;
    unfold tag_eqb; match goal with |- (if ?d then _ else _) = _ => destruct d; [reflexivity | contradiction] end.
Qed.

Lemma node_eqb_nospan_refl : forall n, node_eqb_nospan n n = true.
Proof.
  apply node_ind'. intros t cs H. simpl. rewrite tag_eqb_nospan_refl. simpl.
  induction H as [|x l Hx Hl IH]; [reflexivity|]. rewrite Hx. simpl. exact IH.
Qed.

(** ** Untouched code *)
(** No identifier with the reserved prefix, no identifier [_ddiast], no block/return with the dummy span. *)
Definition node_ok (vp : string) (n : node) : bool :=
  match n with
  | Node (K KIdent _ _) _ =>
      match ident_sym n with
      | Some s => negb (String.prefix vp s) && negb (String.eqb s gen_DD_GLOBAL_NAMESPACE)
      | None => true
      end
  | Node (K KBlock lo hi) _ => negb (is_dummy (lo, hi))
  | _ => true
  end.

Fixpoint no_reserved (vp : string) (n : node) : bool :=
  node_ok vp n &&
  match n with Node _ cs =>
    (fix go (l : list node) : bool := match l with [] => true | c :: l' => no_reserved vp c && go l' end) cs
  end.

Lemma no_reserved_children vp t cs :
  no_reserved vp (Node t cs) = true -> node_ok vp (Node t cs) = true /\ Forall (fun c => no_reserved vp c = true) cs.
Proof.
  simpl. intros H. apply andb_true_iff in H. destruct H as [H1 H2]. split; [exact H1|].
  clear H1. induction cs as [|x r IH]; [constructor|].
  apply andb_true_iff in H2. destruct H2 as [Hx Hr]. constructor; [exact Hx | apply IH; exact Hr].
Qed.

Lemma nr_in vp t cs x : no_reserved vp (Node t cs) = true -> In x cs -> no_reserved vp x = true.
Proof.
  intros H Hin. apply no_reserved_children in H. destruct H as [_ H].
  rewrite Forall_forall in H. apply H. exact Hin.
Qed.

Tactic Notation "nr_sub" hyp(H) constr(x) ident(name) :=
  assert (name : no_reserved _ x = true) by (eapply nr_in; [exact H | simpl; tauto]).

Lemma nr_block_not_dummy vp t cs blo bhi bcs :
  no_reserved vp (Node t cs) = true -> In (Node (K KBlock blo bhi) bcs) cs -> is_dummy (blo, bhi) = false.
Proof.
  intros H Hin. pose proof (nr_in _ _ _ _ H Hin) as Hb.
  apply no_reserved_children in Hb. destruct Hb as [Hb _]. unfold node_ok in Hb.
  destruct (is_dummy (blo, bhi)); [discriminate | reflexivity].
Qed.

Lemma is_temp_ident_ok vp n : no_reserved vp n = true -> is_temp_ident vp n = None.
Proof.
  destruct n as [t cs]. intros H. apply no_reserved_children in H. destruct H as [H _].
  unfold is_temp_ident. destruct t as [k lo hi| | | | | |]; try reflexivity. destruct k; try reflexivity.
  unfold node_ok in H. destruct (ident_sym (Node (K KIdent lo hi) cs)) as [s|]; [|reflexivity].
  apply andb_true_iff in H. destruct H as [H _]. destruct (String.prefix vp s); [discriminate | reflexivity].
Qed.

Lemma hook_callee_name_some callee name :
  hook_callee_name callee = Some name ->
  exists l h l' h' c0 rest pr,
    callee = Node (K KMember l h) [Node (K KIdent l' h') (c0 :: nS gen_DD_GLOBAL_NAMESPACE :: rest); pr].
Proof.
  unfold hook_callee_name. intros H.
  destruct callee as [[k2 l2 h2| | | | | |] ccs]; try discriminate. destruct k2; try discriminate.
  destruct ccs as [|o [|pr [|? ?]]]; try discriminate;
    destruct o as [[k3 l3 h3| | | | | |] ocs]; try discriminate; destruct k3; try discriminate;
    destruct ocs as [|c0 [|[[| | | |ns| |] [|? ?]] orest]]; try discriminate.
  all: destruct pr as [[k4 l4 h4| | | | | |] pcs]; try discriminate; destruct k4; try discriminate.
  all: destruct pcs as [|[[| | | |nm| |] [|? ?]] [|? ?]]; try discriminate.
  all: destruct (String.eqb ns gen_DD_GLOBAL_NAMESPACE) eqn:E; [|discriminate].
  all: apply String.eqb_eq in E; subst ns; unfold nS; eauto 10.
Qed.

Lemma hook_call_ok vp n : no_reserved vp n = true -> hook_call n = None.
Proof.
  intros H. unfold hook_call. destruct n as [[k lo hi| | | | | |] cs]; try reflexivity.
  destruct k; try reflexivity.
  destruct cs as [|cx [|callee [|[[| | | | | |] args] [|targs [|? ?]]]]]; try reflexivity.
  nr_sub H callee Hc.
  destruct (hook_callee_name callee) as [name|] eqn:E; [|reflexivity].
  apply hook_callee_name_some in E. destruct E as (l & h & l' & h' & c0 & rest & pr & ->).
  nr_sub Hc (Node (K KIdent l' h') (c0 :: nS gen_DD_GLOBAL_NAMESPACE :: rest)) Ho.
  apply no_reserved_children in Ho. destruct Ho as [Ho _]. simpl in Ho.
  apply andb_true_iff in Ho. destruct Ho as [_ Ho]. try rewrite String.eqb_refl in Ho. discriminate.
Qed.

Lemma split_injected_ok vp : forall es, Forall (fun c => no_reserved vp c = true) es ->
  match split_injected vp es with Some (asg, _) => asg = [] | None => True end.
Proof.
  intros es H. destruct es as [|e rest]; [exact I|].
  destruct rest as [|e2 rest']; [reflexivity|].
  pose proof (Forall_inv H) as He. cbn [split_injected].
  destruct e as [[k lo hi| | | | | |] cs]; try exact I. destruct k; try exact I.
  destruct cs as [|[[| | | |op| |] [|? ?]] [|lhs [|rhs [|? ?]]]]; try exact I.
  all: destruct op as [|[[] [] [] [] [] [] [] []] [|? ?]]; try exact I.
  nr_sub He lhs Hl.
  rewrite (is_temp_ident_ok _ _ Hl). exact I.
Qed.

Lemma is_injected_let_ok vp s : String.length vp <> 0 -> no_reserved vp s = true -> is_injected_let vp s = false.
Proof.
  intros Hvp H. unfold is_injected_let.
  destruct s as [[k lo hi| | | | | |] cs]; try reflexivity. destruct k; try reflexivity.
  destruct cs as [|cx [|[[| | | |kw| |] [|? ?]] [|dc [|[[| | | | | |] decls] [|? ?]]]]]; try reflexivity.
  all: destruct kw as [|[[] [] [] [] [] [] [] []] kw']; try reflexivity.
  all: destruct kw' as [|[[] [] [] [] [] [] [] []] kw'']; try reflexivity.
  all: destruct kw'' as [|[[] [] [] [] [] [] [] []] [|? ?]]; try reflexivity.
  destruct decls as [|d ds]; [reflexivity|].
  nr_sub H (Node Lst (d :: ds)) Hl. nr_sub Hl d Hd.
  simpl. destruct d as [[k lo' hi'| | | | | |] dcs]; try reflexivity. destruct k; try reflexivity.
  destruct dcs as [|id [|[[| | | | | |] [|? ?]] [|? [|? ?]]]]; try reflexivity.
  nr_sub Hd id Hid.
  pose proof (is_temp_ident_ok _ _ Hid) as T. unfold is_temp_ident in T.
  destruct id as [[k lo'' hi''| | | | | |] ics]; try reflexivity; destruct k; try reflexivity.
  destruct (ident_sym (Node (K KIdent lo'' hi'') ics)) as [sym|]; [|reflexivity].
  destruct (String.prefix vp sym); [discriminate | reflexivity].
Qed.

Lemma strip_let_ok vp stmts : String.length vp <> 0 ->
  Forall (fun c => no_reserved vp c = true) stmts -> strip_let vp stmts = stmts.
Proof.
  intros Hvp H. unfold strip_let.
  assert (A : Forall (fun c => no_reserved vp c = true) (after_directives stmts)).
  { induction stmts as [|s r IH]; simpl; [constructor|].
    inversion H; subst. destruct (is_directive s); [apply IH; assumption | constructor; assumption]. }
  rewrite (directives_split stmts) at 3. f_equal.
  destruct (after_directives stmts) as [|s rest]; [reflexivity|].
  inversion A; subst. rewrite is_injected_let_ok; auto.
Qed.

Lemma post_ok vp n : String.length vp <> 0 -> no_reserved vp n = true -> post vp n = n.
Proof.
  intros Hvp H. unfold post.
  destruct n as [[k lo hi| | | | | |] cs]; try reflexivity. destruct k; try reflexivity.
  - (* block *)
    destruct cs as [|cx [|[[| | | | | |] stmts] [|? ?]]]; try reflexivity.
    nr_sub H (Node Lst stmts) Hs. apply no_reserved_children in Hs. destruct Hs as [_ Hs].
    rewrite strip_let_ok; auto.
  - (* call *)
    rewrite (hook_call_ok _ _ H). reflexivity.
  - (* arrow *)
    unfold unarrow.
    repeat match goal with |- context [match ?x with _ => _ end] => is_var x; destruct x end; try reflexivity.
    all: rewrite (nr_block_not_dummy _ _ _ _ _ _ H) by (simpl; tauto); reflexivity.
  - (* paren *)
    repeat match goal with
           | |- context [match ?x with _ => _ end] =>
               is_var x;
               match type of x with node => idtac | list node => idtac | tag => idtac | kind => idtac end;
               destruct x
           end; try reflexivity.
    all: unfold collapse_seq;
      match goal with
      | Hx : no_reserved ?v _ = true |- context [split_injected ?v ?es] =>
          assert (Hs : no_reserved v (Node Lst es) = true)
            by (eapply nr_in; [eapply nr_in; [exact Hx | simpl; tauto] | simpl; tauto]);
          apply no_reserved_children in Hs; destruct Hs as [_ Hs];
          pose proof (split_injected_ok v es Hs) as S;
          destruct (split_injected v es) as [[asg last]|]; [subst asg|]; reflexivity
      end.
Qed.

Theorem erase_node_clean vp : forall n, String.length vp <> 0 -> no_reserved vp n = true -> erase_node vp n = n.
Proof.
  intros n Hvp. revert n. apply (node_ind' (fun n => no_reserved vp n = true -> erase_node vp n = n)).
  intros t cs IH H. cbn [erase_node].
  assert (M : map (erase_node vp) cs = cs).
  { apply no_reserved_children in H. destruct H as [_ H].
    induction cs as [|x r IHr]; [reflexivity|]. inversion IH; subst. inversion H; subst.
    simpl. f_equal; auto. }
  rewrite M. apply post_ok; assumption.
Qed.
