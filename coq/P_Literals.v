(** * C14 -- facts about the literal collection. *)
From Coq Require Import String List NArith Bool Lia.
From IastRw Require Import Ast Generated Literals.
Import ListNotations.

(** The generated window is the one the property states: more than 10, at most 256 bytes.
    (If the comparison operators or the bounds in literal_visitor.rs change, [Generated.v] changes
    and this lemma no longer checks.) *)
Lemma len_window n : gen_len_ok n = true <-> (10 < n <= 256)%N.
Proof.
  unfold gen_len_ok, gen_min_literal_length, gen_max_literal_length.
  rewrite andb_true_iff, N.ltb_lt, N.leb_le. tauto.
Qed.

Lemma documented_window n : documented_len_ok n = true <-> (10 < n <= 256)%N.
Proof. unfold documented_len_ok. rewrite andb_true_iff, N.ltb_lt, N.leb_le. tauto. Qed.

Lemma entry_of_len n ident e : In e (entry_of n ident) ->
  (10 < N.of_nat (String.length (le_value e)) <= 256)%N /\ str_value n = Some (le_value e) /\ le_span e = span_of n.
Proof.
  unfold entry_of. destruct (str_value n) as [v|]; [|intros []].
  destruct (documented_len_ok (N.of_nat (String.length v))) eqn:E; [|intros []].
  intros [<-|[]]. simpl. split; [apply documented_window; exact E | auto].
Qed.

Lemma here_len n e : In e (here n) -> (10 < N.of_nat (String.length (le_value e)) <= 256)%N.
Proof.
  unfold here. destruct n as [[k lo hi| | | | | |] cs]; try (intros []).
  destruct k; try (intros []).
  - destruct cs as [|id [|init rest]]; try (intros []). intros H. apply entry_of_len in H. tauto.
  - destruct cs as [|key [|value [|? ?]]]; try (intros []). intros H. apply entry_of_len in H. tauto.
  - intros H. apply entry_of_len in H. tauto.
Qed.

Lemma walk_len : forall n e, In e (walk n) -> (10 < N.of_nat (String.length (le_value e)) <= 256)%N.
Proof.
  apply (node_ind' (fun n => forall e, In e (walk n) -> (10 < N.of_nat (String.length (le_value e)) <= 256)%N)).
  intros t cs IH e. cbn [walk]. destruct (skipped (Node t cs)); [intros []|].
  intros H. apply in_app_or in H. destruct H as [H|H]; [eapply here_len; exact H|].
  revert H. generalize 0. induction IH as [|c l Hc Hl IHl]; intros i H; [destruct H|].
  apply in_app_or in H. destruct H as [H|H]; [|eapply IHl; exact H].
  destruct (not_an_expression t i c); [destruct H | apply Hc; exact H].
Qed.

Lemma dedup_subset : forall l seen acc e, In e (dedup seen acc l) -> In e acc \/ In e l.
Proof.
  induction l as [|x l IH]; intros seen acc e H; simpl in H.
  - left. apply in_rev. exact H.
  - destruct (existsb (same_entry x) seen).
    + destruct (IH _ _ _ H); auto. right. right. assumption.
    + destruct (IH _ _ _ H) as [H1|H1]; [|right; right; exact H1].
      destruct H1 as [<-|H1]; [right; left; reflexivity | left; exact H1].
Qed.

(** Every reported literal is a string literal met by the walk and lies in the window. *)
Theorem collect_window prog es e :
  collect true prog = Some es -> In e es -> (10 < N.of_nat (String.length (le_value e)) <= 256)%N.
Proof.
  unfold collect. intros H Hin. inversion H; subst.
  apply dedup_subset in Hin. destruct Hin as [[]|Hin]. eapply walk_len; exact Hin.
Qed.

Theorem collect_disabled prog : collect false prog = None.
Proof. reflexivity. Qed.

(** No (value, position) pair is reported twice. *)
Definition key (e : lit_entry) : string * sp := (le_value e, le_span e).

Lemma same_entry_key a b : same_entry a b = true <-> key a = key b.
Proof.
  unfold same_entry, key, sp_eqb. rewrite !andb_true_iff, String.eqb_eq, !N.eqb_eq.
  destruct (le_span a) as [a1 a2], (le_span b) as [b1 b2]. simpl. split.
  - intros (-> & -> & ->). reflexivity.
  - intros H. inversion H. auto.
Qed.

Lemma dedup_nodup : forall l seen acc,
  (forall a, In a acc -> existsb (same_entry a) seen = true) ->
  NoDup (map key acc) ->
  NoDup (map key (dedup seen acc l)).
Proof.
  induction l as [|x l IH]; intros seen acc Hseen Hnd; simpl.
  - rewrite map_rev. apply NoDup_rev. exact Hnd.
  - destruct (existsb (same_entry x) seen) eqn:E; [apply IH; assumption|].
    apply IH.
    + intros a [<-|Ha]; simpl.
      * assert (R : same_entry x x = true) by (apply same_entry_key; reflexivity). rewrite R. reflexivity.
      * rewrite (Hseen a Ha). apply orb_true_r.
    + simpl. constructor; [|exact Hnd].
      intros Hin. apply in_map_iff in Hin. destruct Hin as (a & Hk & Ha).
      specialize (Hseen a Ha). apply existsb_exists in Hseen. destruct Hseen as (s & Hs & Has).
      assert (X : existsb (same_entry x) seen = true).
      { apply existsb_exists. exists s. split; [exact Hs|].
        apply same_entry_key. apply same_entry_key in Has. congruence. }
      congruence.
Qed.

Theorem collect_no_duplicates prog es :
  collect true prog = Some es -> NoDup (map key es).
Proof.
  unfold collect. intros H. inversion H; subst. apply dedup_nodup; [intros a []|constructor].
Qed.

(** Nothing under a skipped call is reported. *)
Theorem skipped_reports_nothing n : skipped n = true -> walk n = [].
Proof. destruct n as [t cs]. cbn [walk]. intros ->. reflexivity. Qed.
