(** * C07 -- where the model inserts the injected [let] and the file prologue. *)
From Coq Require Import String List NArith Bool Lia.
From IastRw Require Import Ast Generated Config Model Directives.
Import ListNotations.

Lemma can_precede_is_directive s : can_precede_directive s = is_directive s.
Proof. reflexivity. Qed.

Lemma insertion_index_length stmts : insertion_index stmts = length (directives_of stmts).
Proof.
  induction stmts as [|s rest IH]; simpl; [reflexivity|].
  rewrite can_precede_is_directive. destruct (is_directive s); simpl; [f_equal; exact IH | reflexivity].
Qed.

Lemma firstn_directives stmts : firstn (length (directives_of stmts)) stmts = directives_of stmts.
Proof.
  induction stmts as [|s rest IH]; simpl; [reflexivity|].
  destruct (is_directive s); simpl; [f_equal; exact IH | reflexivity].
Qed.

Lemma skipn_directives stmts : skipn (length (directives_of stmts)) stmts = after_directives stmts.
Proof.
  induction stmts as [|s rest IH]; simpl; [reflexivity|].
  destruct (is_directive s); simpl; [exact IH | reflexivity].
Qed.

Lemma directives_all ds : forallb is_directive ds = true -> forall rest,
  match rest with [] => True | r :: _ => is_directive r = false end ->
  directives_of (ds ++ rest) = ds /\ after_directives (ds ++ rest) = rest.
Proof.
  induction ds as [|d ds IH]; simpl; intros H rest Hr.
  - destruct rest as [|r rest']; simpl; [auto|]. rewrite Hr. auto.
  - apply andb_true_iff in H. destruct H as [Hd Hds]. rewrite Hd.
    destruct (IH Hds rest Hr) as [A B]. rewrite A, B. auto.
Qed.

Lemma directives_of_all stmts : forallb is_directive (directives_of stmts) = true.
Proof.
  induction stmts as [|s rest IH]; simpl; [reflexivity|].
  destruct (is_directive s) eqn:E; simpl; [rewrite E; exact IH | reflexivity].
Qed.

Lemma after_directives_head stmts :
  match after_directives stmts with [] => True | r :: _ => is_directive r = false end.
Proof.
  induction stmts as [|s rest IH]; simpl; [exact I|].
  destruct (is_directive s) eqn:E; [exact IH | exact E].
Qed.

(** Inserting statements whose first is not a directive at the model's insertion index keeps the
    directive prologue exactly and puts the new statements right after it. *)
Lemma insert_at_index_directives xs stmts :
  match xs with [] => True | x :: _ => is_directive x = false end ->
  directives_of (insert_at (insertion_index stmts) xs stmts) = directives_of stmts /\
  after_directives (insert_at (insertion_index stmts) xs stmts) = xs ++ after_directives stmts.
Proof.
  intros Hx. unfold insert_at. rewrite insertion_index_length, firstn_directives, skipn_directives.
  apply directives_all; [apply directives_of_all|].
  destruct xs as [|x xs']; simpl; [apply after_directives_head | exact Hx].
Qed.

Lemma mk_let_not_directive span decls : is_directive (mk_let span decls) = false.
Proof. reflexivity. Qed.

(** The injected declaration: directives untouched, [let] right after them, rest in order. *)
Lemma insert_let_directives idents span stmts :
  directives_of (insert_let idents span stmts) = directives_of stmts /\
  after_directives (insert_let idents span stmts) =
    match idents with
    | [] => after_directives stmts
    | _ => mk_let span (map (fun name => mk_var_declarator span (mk_binding_ident DUMMY name)) idents)
           :: after_directives stmts
    end.
Proof.
  unfold insert_let. destruct idents as [|i is_]; [auto|].
  apply (insert_at_index_directives [_]). reflexivity.
Qed.

(** The declaration the model injects is recognised as such by the specification when every
    name carries the reserved prefix. *)
Lemma injected_let_recognised vp idents span :
  idents <> [] -> forallb (String.prefix vp) idents = true ->
  is_injected_let vp (mk_let span (map (fun name => mk_var_declarator span (mk_binding_ident DUMMY name)) idents)) = true.
Proof.
  intros Hne Hp. unfold is_injected_let, mk_let, mk. simpl.
  destruct idents as [|i is_]; [contradiction|]. clear Hne.
  assert (G : forall l, forallb (String.prefix vp) l = true ->
              forallb (fun d => match d with
                                | Node (K KVarDeclarator _ _) [id; Node Nul []; _] =>
                                    match ident_sym id with Some s => String.prefix vp s | None => false end
                                | _ => false
                                end)
                      (map (fun name => mk_var_declarator span (mk_binding_ident DUMMY name)) l) = true).
  { induction l as [|j js IH]; simpl; intros H; [reflexivity|].
    apply andb_true_iff in H. destruct H as [Hj Hjs]. rewrite Hj. simpl. apply IH. exact Hjs. }
  apply (G (i :: is_)). exact Hp.
Qed.

(** The file prologue: same statement for [insert_prologue]. *)
Lemma insert_prologue_directives c body :
  match c_prefix_stmts c with [] => True | x :: _ => is_directive x = false end ->
  directives_of (insert_prologue c body) = directives_of body /\
  after_directives (insert_prologue c body) = c_prefix_stmts c ++ after_directives body.
Proof. intros H. unfold insert_prologue. apply insert_at_index_directives. exact H. Qed.

(** ** The operation visitor keeps directives directives and creates none. *)
From IastRw Require Import P_OpVisit P_Kinds.

Lemma is_directive_spec n :
  is_directive n = match n with
                   | Node t [x] => is_kind KExprStmt n && is_kind KStr x
                   | _ => false
                   end.
Proof.
  destruct n as [t cs]. destruct cs as [|x [|y ys]];
    destruct t as [k lo hi| | | | | |]; try destruct k; try reflexivity.
  destruct x as [tx xcs]. destruct tx as [kx xlo xhi| | | | | |]; try destruct kx; try reflexivity.
  destruct x as [tx xcs]. destruct tx as [kx xlo xhi| | | | | |]; try destruct kx; reflexivity.
Qed.

Theorem op_visit_directive c fuel root n s n' s' :
  op_visit c fuel root n s = Some (n', s') -> is_directive n' = is_directive n.
Proof.
  intros H.
  pose proof (op_visit_neutral c KExprStmt eq_refl _ _ _ _ _ _ H) as HE.
  rewrite (is_directive_spec n'), (is_directive_spec n).
  destruct (is_kind KExprStmt n) eqn:En.
  - (* an expression statement: default traversal over its only child *)
    destruct fuel as [|f]; [discriminate|]. cbn [op_visit] in H.
    destruct n as [[k lo hi| | | | | |] cs]; try discriminate En.
    destruct k; try discriminate En. simpl in H.
    destruct (map_st (op_visit c f root) cs s) as [[cs' s1]|] eqn:E; [|discriminate].
    inversion H; subst.
    pose proof (map_st_length _ _ _ _ _ E) as L.
    destruct cs as [|x [|? ?]]; destruct cs' as [|x' [|? ?]]; try discriminate L; try reflexivity.
    simpl in E. destruct (op_visit c f root x s) as [[y sy]|] eqn:Ex; [|discriminate].
    inversion E; subst. rewrite HE.
    rewrite (op_visit_neutral c KStr eq_refl _ _ _ _ _ _ Ex). reflexivity.
  - rewrite HE.
    destruct n' as [t' [|x' [|? ?]]]; destruct n as [t [|x [|? ?]]]; reflexivity.
Qed.

(** Pointwise over a statement list: the directive prologue of the visited list has the same
    length, and what follows it corresponds to what followed it. *)
Lemma map_st_directives c fuel root : forall stmts s stmts' s',
  map_st (op_visit c fuel root) stmts s = Some (stmts', s') ->
  length (directives_of stmts') = length (directives_of stmts) /\
  length (after_directives stmts') = length (after_directives stmts).
Proof.
  induction stmts as [|x rest IH]; intros s stmts' s' H; simpl in H.
  - inversion H; subst. auto.
  - destruct (op_visit c fuel root x s) as [[x' s1]|] eqn:E; [|discriminate].
    destruct (map_st (op_visit c fuel root) rest s1) as [[rest' s2]|] eqn:E2; [|discriminate].
    inversion H; subst. simpl. rewrite (op_visit_directive _ _ _ _ _ _ _ E).
    destruct (is_directive x).
    + destruct (IH _ _ _ E2) as [A B]. simpl. auto.
    + simpl. split; [reflexivity|]. f_equal. eapply map_st_length; exact E2.
Qed.
