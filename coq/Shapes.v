(** * C03 -- the arguments of every hook call are the operands of the operation in its first
    argument, in order (specification side, on an OUTPUT tree).

    For a hook call [h(e, a1 .. an)] the expected arguments are read off [e]:
    - [l + r]                ->  [l; r]
    - a template             ->  its substitutions
    - [F.call(T, x1 .. xk)]  ->  [F; T; x1 .. xk]
    - [F.apply(T, [x1 .. xk])] -> [F; T; x1 .. xk]      (holes included, as [undefined] would be)
    - [f(x1 .. xk)]          ->  [f; undefined; x1 .. xk]
    and each [ai] must be that very operand (a literal, an injected temporary or an identifier;
    a spread [...t] for a spread operand).  [shape_issues] classifies every disagreement. *)
From Coq Require Import String List NArith Bool.
From IastRw Require Import Ast Generated HookSites Erase.
Import ListNotations.
Local Open Scope string_scope.
Local Open Scope list_scope.

Inductive expected :=
| Exact (arg : node)           (* this very argument node (ExprOrSpread) *)
| OmittedSum (e : node)        (* a literal-only sum kept in place: nothing can be passed for it *)
| Hole                         (* a hole of an apply array *)
| Unspread (e : node).         (* a spread literal: the implementation passes it unspread *)

Definition is_plus (e : node) : bool :=
  match e with Node (K KBin _ _) (Node (Str "+") [] :: _) => true | _ => false end.

Definition expect_operand (arg : node) : expected :=
  match arg with
  | Node Obj [spr; e] =>
      if is_plus e then OmittedSum e else Exact arg
  | Node Nul _ => Hole
  | _ => Exact arg
  end.

Definition expected_of_operation (op : node) : option (list expected) :=
  match op with
  | Node (K KBin _ _) [Node (Str "+") []; l; r] =>
      Some [expect_operand (mk_arg l); expect_operand (mk_arg r)]
  | Node (K KTpl _ _) [Node Lst es; _] => Some (map (fun e => expect_operand (mk_arg e)) es)
  | Node (K KCall _ _) [_; Node (K KMember _ _) [f; prop]; Node Lst args; _] =>
      match ident_name_sym prop, args with
      | Some "call", this :: rest =>
          if arg_is_spread this
          then Some (Exact (mk_arg f) :: map expect_operand args)
          else Some (Exact (mk_arg f) :: Exact this :: map expect_operand rest)
      | Some "apply", this :: rest =>
          if arg_is_spread this
          then Some (Exact (mk_arg f) :: map expect_operand args)
          else
            Some (Exact (mk_arg f) :: Exact this ::
                  flat_map (fun a => match a with
                                     | Node Obj [Node Nul []; Node (K KArray _ _) [Node Lst elems]] =>
                                         map expect_operand elems
                                     | _ => [expect_operand a]
                                     end) rest)
      | _, _ => None
      end
  | Node (K KCall lo hi) [_; f; Node Lst args; _] =>
      if is_ident f
      then Some (Exact (mk_arg f) :: Exact (mk_arg (mk_ident (lo, hi) "undefined")) :: map expect_operand args)
      else None
  | _ => None
  end.

Definition simple_arg (vp : string) (a : node) : bool :=
  match arg_expr a with
  | Some e => is_lit e || is_ident e
  | None => false
  end.

(** Walk expected against actual arguments. *)
Fixpoint match_args (vp : string) (ex : list expected) (actual : list node) : list string :=
  match ex with
  | [] => match actual with [] => [] | _ => ["extra-argument"] end
  | Exact a :: ex' =>
      match actual with
      | b :: actual' =>
          (if Bool.eqb (arg_is_spread a) (arg_is_spread b)
              && match arg_expr a, arg_expr b with
                 | Some x, Some y => node_eqb x y
                 | _, _ => false
                 end
           then [] else ["different-argument"]) ++
          (if simple_arg vp b then [] else ["complex-argument"]) ++ match_args vp ex' actual'
      | [] => ["missing-argument"]
      end
  | OmittedSum _ :: ex' => "sum-operand-omitted" :: match_args vp ex' actual
  | Hole :: ex' => "apply-hole-dropped" :: match_args vp ex' actual
  | Unspread e :: ex' =>
      match actual with
      | b :: actual' =>
          (match arg_expr b with
           | Some e' => if node_eqb e e' && negb (arg_is_spread b) then ["spread-literal-unspread"]
                        else ["different-argument"]
           | None => ["different-argument"]
           end) ++ match_args vp ex' actual'
      | [] => ["missing-argument"]
      end
  end.

Definition apply_spread_args (op : node) : bool :=
  match op with
  | Node (K KCall _ _) [_; Node (K KMember _ _) [_; prop]; Node Lst (this :: second :: _); _] =>
      match ident_name_sym prop with
      | Some "apply" => arg_is_spread this || arg_is_spread second
      | _ => false
      end
  | _ => false
  end.

(** [F.apply(T, X)] where [X] is neither an array literal nor a spread: the call's arguments are the ELEMENTS of [X],
    which the hook cannot be handed without spreading [X]; passing [X] itself is a different value. *)
Definition apply_unexpanded_args (op : node) : bool :=
  match op with
  | Node (K KCall _ _) [_; Node (K KMember _ _) [_; prop]; Node Lst (this :: second :: _); _] =>
      match ident_name_sym prop with
      | Some "apply" =>
          negb (arg_is_spread this) && negb (arg_is_spread second) &&
          match second with
          | Node Obj [Node Nul []; Node (K KArray _ _) _] => false
          | _ => true
          end
      | _ => false
      end
  | _ => false
  end.

(** [F.apply(T, X, extra...)]: [apply] ignores what follows its second argument; handing those values to the hook
    as operands of the call says the call received them. *)
Definition apply_extra_args (op : node) : bool :=
  match op with
  | Node (K KCall _ _) [_; Node (K KMember _ _) [_; prop]; Node Lst (this :: second :: _ :: _); _] =>
      match ident_name_sym prop with
      | Some "apply" => negb (arg_is_spread this) && negb (arg_is_spread second)
      | _ => false
      end
  | _ => false
  end.

(** A regular-expression literal among the operands: every evaluation of the literal creates a new object, so the
    hook is handed another object than the one the operation used. *)
Definition regex_operand (args : list node) : bool :=
  existsb (fun a => match arg_expr a with Some e => is_kind KRegex e | None => false end) args.

(** Each operand is evaluated once, for itself: two operands never share an injected temporary (that
    would pass the value of one evaluation in the place of another one, which was omitted). *)
Fixpoint has_dup_str (l : list string) : bool :=
  match l with
  | [] => false
  | x :: r => existsb (String.eqb x) r || has_dup_str r
  end.

Definition operand_temps (vp : string) (args : list node) : list string :=
  flat_map (fun a => match arg_expr a with
                     | Some e => match is_temp_ident vp e with Some t => [t] | None => [] end
                     | None => []
                     end) args.

(** A spread operand is evaluated once into a temporary that is then spread twice (in the operation and in the hook's
    argument list): the temporary must hold a COPY, [[...e]] -- spreading [e] itself twice would iterate it twice (a
    generator is exhausted by the first, a proxy notices both).  Read on a sequence expression: the temporaries
    that its hook calls spread, against what the same sequence assigns to them. *)
Definition is_array_copy (rhs : node) : bool :=
  match rhs with
  | Node (K KArray _ _) [Node Lst [el]] => arg_is_spread el
  | _ => false
  end.

Definition spread_temps (vp : string) (args : list node) : list string :=
  flat_map (fun a => if arg_is_spread a
                     then match arg_expr a with
                          | Some e => match is_temp_ident vp e with Some t => [t] | None => [] end
                          | None => []
                          end
                     else []) args.

Definition noncopy_assigned (vp : string) (es : list node) : list string :=
  flat_map (fun e => match e with
                     | Node (K KAssign _ _) [_; lhs; rhs] =>
                         match is_temp_ident vp lhs with
                         | Some t => if is_array_copy rhs then [] else [t]
                         | None => []
                         end
                     | _ => []
                     end) es.

Definition seq_spread_issue (vp : string) (n : node) : list string :=
  match n with
  | Node (K KSeq _ _) [Node Lst es] =>
      let spread := flat_map (fun e => match hook_call e with Some (_, args) => spread_temps vp args | None => [] end) es in
      let bad := noncopy_assigned vp es in
      if existsb (fun t => existsb (String.eqb t) bad) spread then ["spread-temporary-not-a-copy"] else []
  | _ => []
  end.

Fixpoint shape_issues (vp : string) (n : node) : list string :=
  seq_spread_issue vp n ++
  (match hook_call n with
   | Some (_, a0 :: rest) =>
       match arg_expr a0 with
       | Some op =>
           (if arg_is_spread a0 then ["spread-result"] else []) ++
           (if has_dup_str (operand_temps vp rest) then ["operand-temporary-shared"] else []) ++
           (if apply_extra_args op then ["apply-extra-arguments-passed"] else []) ++
           (if regex_operand rest then ["regex-literal-operand-duplicated"] else []) ++
           match expected_of_operation op with
           | Some ex => if apply_spread_args op then ["apply-spread-args"]
                        else if apply_unexpanded_args op then ["apply-args-not-expanded"]
                        else match_args vp ex rest
           | None => ["unknown-operation"]
           end
       | None => ["no-first-argument"]
       end
   | Some (_, []) => ["no-first-argument"]
   | None => []
   end) ++
  match n with
  | Node _ cs =>
      (fix go (l : list node) : list string :=
         match l with [] => [] | c :: l' => shape_issues vp c ++ go l' end) cs
  end.
