(** * C15 -- global statement: for programs without optional chaining that do not mention the hook
    namespace, the count reported by the model equals the number of hook references in its output. *)
From Coq Require Import String List NArith Bool Lia.
From IastRw Require Import Ast Generated Config Model HookSites WfTree P_OpVisit P_Kinds P_Telemetry P_Count.
Import ListNotations.

(** ** Sub-trees inherit the hypotheses *)
Lemma wf_all_children t cs :
  wf_all (Node t cs) = true -> wf_node (Node t cs) = true /\ Forall (fun c => wf_all c = true) cs.
Proof.
  cbn [wf_all]. intros H. apply andb_true_iff in H. destruct H as [H1 H2]. split; [exact H1|].
  clear H1. induction cs as [|x r IH]; [constructor|].
  apply andb_true_iff in H2. destruct H2 as [Hx Hr]. constructor; [exact Hx | apply IH; exact Hr].
Qed.

Lemma ns_list_zero l : ns_count_list l = 0 -> Forall (fun c => ns_count c = 0) l.
Proof.
  unfold ns_count_list, ns_count. induction l as [|x r IH]; intros H; [constructor|].
  rewrite ns_list_cons in H. constructor; [lia | apply IH; lia].
Qed.

Lemma ns_zero_children t cs : plain (Node t cs) = true -> ns_count (Node t cs) = 0 ->
  Forall (fun c => ns_count c = 0) cs.
Proof. intros P H. unfold ns_count in H. rewrite ns_node_nostop in H by exact P. apply ns_list_zero. exact H. Qed.

Lemma ns_zero_not_ns n : ns_count n = 0 -> is_ns_ident n = false.
Proof.
  intros Z. destruct (is_ns_ident n) eqn:E; [|reflexivity]. exfalso.
  destruct n as [[k lo hi| | | | | |] cs]; try discriminate E. destruct k; try discriminate E.
  unfold ns_count in Z. cbn [meas is_ident is_kind kind_of kind_eqb] in Z.
  destruct (kind_eq_dec KIdent KIdent) as [_|X]; [|contradiction]. rewrite E in Z. discriminate Z.
Qed.

Lemma ns_zero_member lo hi obj rest : ns_count (Node (K KMember lo hi) (obj :: rest)) = 0 -> is_ns_ident obj = false.
Proof.
  intros Z. unfold ns_count in Z. rewrite ns_node_nostop in Z by reflexivity.
  rewrite ns_list_cons in Z. apply ns_zero_not_ns. unfold ns_count. lia.
Qed.

Definition good (n : node) : Prop := wf_all n = true /\ ns_count n = 0.

Lemma good_children t cs : plain (Node t cs) = true -> good (Node t cs) -> Forall good cs.
Proof.
  intros P [W Z]. apply wf_all_children in W. destruct W as [_ W].
  pose proof (ns_zero_children _ _ P Z) as N. clear -W N.
  induction cs as [|x r IH]; [constructor|]. inversion W; inversion N; subst. constructor; [split; assumption | auto].
Qed.

(** ** Fixed points of the visit *)
Lemma classify_leaf n : leaf n = true -> is_ident n = false -> classify n = OLeaf.
Proof.
  destruct n as [[k lo hi| | | | | |] cs]; simpl; intros L I; try reflexivity; try discriminate L.
  destruct k; try reflexivity; try discriminate L; try discriminate I.
Qed.

Lemma leaf_not_ident n : leaf n = true -> is_ident n = false.
Proof.
  destruct n as [[k lo hi| | | | | |] cs]; try reflexivity. destruct k; try reflexivity. discriminate.
Qed.

Lemma op_visit_leaf c fuel root n s n' s' :
  op_visit c fuel root n s = Some (n', s') -> leaf n = true -> n' = n /\ s' = s.
Proof.
  destruct fuel as [|f]; [discriminate|]. intros H L. cbn [op_visit] in H.
  rewrite (classify_leaf n L (leaf_not_ident n L)) in H. inversion H; auto.
Qed.

Lemma classify_ident n : is_ident n = true -> classify n = OIdent.
Proof.
  destruct n as [[k lo hi| | | | | |] cs]; try discriminate. destruct k; try discriminate. reflexivity.
Qed.

Lemma op_visit_ident_fix c fuel root n s n' s' :
  op_visit c fuel root n s = Some (n', s') -> is_ident n' = true -> n' = n.
Proof.
  intros H I. pose proof (op_visit_neutral c KIdent eq_refl _ _ _ _ _ _ H) as K.
  unfold is_ident in I. rewrite I in K. symmetry in K.
  destruct fuel as [|f]; [discriminate|]. cbn [op_visit] in H.
  rewrite (classify_ident n K) in H. inversion H; reflexivity.
Qed.

(** ** The target of a compound assignment after the visit and after hoisting carries no reference *)
Lemma peel_not_paren n : is_kind KParen n = false -> peel_parens n = n.
Proof.
  destruct n as [[k lo hi| | | | | |] cs]; try reflexivity. destruct k; try reflexivity.
  unfold is_kind. simpl. unfold kind_eqb. destruct (kind_eq_dec KParen KParen); [discriminate | contradiction].
Qed.

(** ** Generic part: any additive measure [meas stop kappa] that vanishes on clean well-formed inputs
    and on the normalised form of their arrow functions *)
Section Generic.
  Variable stop : node -> option nat.
  Variable kappa : nat.
  Local Notation mu := (meas stop kappa).
  Local Notation mul := (meas_list stop kappa).
  Hypothesis mu_good : forall n, good n -> mu n = 0.
  Hypothesis mu_arrow : forall n, good n -> mu (arrow_transform n) = 0.
  (** The names a hook callee may be built with, and the weight of such a callee (P_Count.v). *)
  Variable okname : string -> Prop.
  Hypothesis mu_callee : forall name span, okname name -> mu (dd_callee name span) = kappa.

Lemma hoist_key_clean c prop prop1 span a p prop' a' p' :
  (leaf prop = true /\ prop1 = prop) \/
  (exists lo hi e e1, prop = Node (K KComputed lo hi) [e] /\ prop1 = Node (K KComputed lo hi) [e1] /\
                      mu e = 0 /\ (is_ident e1 = true -> e1 = e)) ->
  hoist_key c prop1 span a p = (prop', a', p') -> mu prop' = 0.
Proof.
  intros [[L ->] | (lo & hi & e & e1 & -> & -> & Z & F)].
  - unfold hoist_key. destruct prop as [[k lo hi| | | | | |] cs]; try (intros H; inversion H; subst; apply ns_leaf; exact L).
    destruct k; try (intros H; inversion H; subst; apply ns_leaf; exact L). discriminate L.
  - unfold hoist_key. destruct (is_ident e1) eqn:I.
    + simpl. intros H; inversion H; subst. rewrite (F eq_refl).
      rewrite (ns_node (K KComputed lo hi)) by reflexivity. simpl. lia.
    + simpl. destruct (is_lit e1) eqn:L.
      * intros H; inversion H; subst. rewrite (ns_node (K KComputed lo hi)) by reflexivity. simpl. rewrite (ns_lit _ L). lia.
      * destruct (get_temporal c e1 span IKExpr a p) as [[id a2] p2] eqn:T.
        intros H; inversion H; subst. rewrite (ns_node (K KComputed lo hi)) by reflexivity. simpl.
        pose proof T as T0. apply (get_temporal_ns (stop:=stop) (kappa:=kappa)) in T. destruct T as [_ Y].
        destruct id as [i|]; [rewrite (Y ltac:(discriminate)); lia|].
        unfold get_temporal in T0. rewrite L in T0. unfold next_ident in T0. cbn [fst snd] in T0. inversion T0.
Qed.

Section Visit.
  Variable c : config.

  (** One-level inversions of the visit for the node kinds a target is made of. *)
  Lemma visit_member f root lo hi obj prop s n' s' :
    op_visit c (S f) root (Node (K KMember lo hi) [obj; prop]) s = Some (n', s') ->
    exists obj1 prop1 s1, n' = Node (K KMember lo hi) [obj1; prop1] /\
      op_visit c f root obj s = Some (obj1, s1) /\ op_visit c f root prop s1 = Some (prop1, s').
  Proof.
    simpl.
    destruct (op_visit c f root obj s) as [[o1 s1]|] eqn:E1; [|discriminate].
    destruct (op_visit c f root prop s1) as [[p1 s2]|] eqn:E2; [|discriminate].
    intros H; inversion H; subst. exists o1, p1, s1. auto.
  Qed.

  Lemma visit_superprop f root lo hi obj prop s n' s' :
    op_visit c (S f) root (Node (K KSuperProp lo hi) [obj; prop]) s = Some (n', s') ->
    exists obj1 prop1 s1, n' = Node (K KSuperProp lo hi) [obj1; prop1] /\
      op_visit c f root obj s = Some (obj1, s1) /\ op_visit c f root prop s1 = Some (prop1, s').
  Proof.
    simpl.
    destruct (op_visit c f root obj s) as [[o1 s1]|] eqn:E1; [|discriminate].
    destruct (op_visit c f root prop s1) as [[p1 s2]|] eqn:E2; [|discriminate].
    intros H; inversion H; subst. exists o1, p1, s1. auto.
  Qed.

  Lemma visit_single f root k lo hi e s n' s' :
    k = KParen \/ k = KComputed ->
    op_visit c (S f) root (Node (K k lo hi) [e]) s = Some (n', s') ->
    exists e1, n' = Node (K k lo hi) [e1] /\ op_visit c f root e s = Some (e1, s').
  Proof.
    intros [-> | ->]; simpl;
      (destruct (op_visit c f root e s) as [[e1 s1]|] eqn:E1; [|discriminate]; intros H; inversion H; subst; exists e1; auto).
  Qed.

  Lemma visit_prop fuel root prop s prop1 s1 :
    op_visit c fuel root prop s = Some (prop1, s1) -> prop_ok prop = true -> mu prop = 0 ->
    (leaf prop = true /\ prop1 = prop) \/
    (exists lo hi e e1, prop = Node (K KComputed lo hi) [e] /\ prop1 = Node (K KComputed lo hi) [e1] /\
                        mu e = 0 /\ (is_ident e1 = true -> e1 = e)).
  Proof.
    intros H P Z. unfold prop_ok in P. destruct (leaf prop) eqn:L.
    - left. split; [reflexivity|]. eapply op_visit_leaf in H; [tauto | exact L].
    - right. simpl in P. destruct prop as [[k lo hi| | | | | |] cs]; try discriminate.
      destruct k; try discriminate. destruct cs as [|e [|? ?]]; try discriminate.
      destruct fuel as [|f]; [discriminate|].
      apply visit_single in H; [|right; reflexivity]. destruct H as (e1 & -> & He).
      exists lo, hi, e, e1. repeat split.
      + rewrite (ns_node (K KComputed lo hi)) in Z by reflexivity. simpl in Z. lia.
      + intros I. eapply op_visit_ident_fix; [exact He | exact I].
  Qed.

  (** What [hoist_member] leaves of a visited member-like target carries no reference. *)
  Lemma hoist_member_clean fuel root t s t1 s1 span a p t' a' p' :
    op_visit c fuel root t s = Some (t1, s1) -> member_like_ok t = true -> ns_count t = 0 -> mu t = 0 ->
    hoist_member c t1 span a p = Some (t', a', p') -> mu t' = 0.
  Proof.
    intros H M NZ Z. unfold member_like_ok in M.
    destruct t as [[k lo hi| | | | | |] cs]; try discriminate. destruct k; try discriminate.
    - (* member *)
      destruct cs as [|obj [|prop [|? ?]]]; try discriminate.
      destruct fuel as [|f]; [discriminate|]. apply visit_member in H.
      destruct H as (obj1 & prop1 & s2 & -> & Ho & Hp).
      pose proof (ns_zero_member _ _ _ _ NZ) as NO.
      rewrite (ns_node (K KMember lo hi)) in Z; [|reflexivity|cbn; exact NO]. cbn [mul fold_right] in Z.
      pose proof (visit_prop _ _ _ _ _ _ Hp M ltac:(lia)) as VP.
      unfold hoist_member.
      destruct (if (is_ident obj1 || is_kind KThis obj1) && negb (key_hoisted prop1) then (obj1, a, p)
                else let '(id, a1, p1) := get_temporal c obj1 span IKExpr a p in
                     (match id with Some i => i | None => obj1 end, a1, p1)) as [[obj2 a1] p1] eqn:E1.
      destruct (hoist_key c prop1 span a1 p1) as [[prop2 a2] p2] eqn:E2.
      intros X; inversion X; subst.
      assert (O : mu obj2 = 0 /\ is_ns_ident obj2 = false).
      { destruct ((is_ident obj1 || is_kind KThis obj1) && negb (key_hoisted prop1)) eqn:B.
        - apply andb_true_iff in B. destruct B as [B _]. inversion E1; subst obj2 a1 p1.
          destruct (is_ident obj1) eqn:I.
          + rewrite (op_visit_ident_fix _ _ _ _ _ _ _ Ho I). split; [lia | exact NO].
          + simpl in B. rename B into T. unfold is_kind in T.
            destruct obj1 as [[k2 l2 h2| | | | | |] ocs]; try discriminate T. simpl in T.
            unfold kind_eqb in T. destruct (kind_eq_dec KThis k2); [subst | discriminate].
            split; [apply ns_leaf; reflexivity | reflexivity].
        - destruct (get_temporal c obj1 span IKExpr a p) as [[id a3] p3] eqn:G. inversion E1; subst.
          split; [|eapply get_temporal_not_ns; exact G].
          pose proof G as G0. apply (get_temporal_ns (stop:=stop) (kappa:=kappa)) in G. destruct G as [_ Y].
          destruct id as [i|]; [apply Y; discriminate|].
          unfold get_temporal in G0. destruct (is_lit obj1) eqn:L; [apply ns_lit; exact L|].
          unfold next_ident in G0. cbn [fst snd] in G0. inversion G0. }
      destruct O as [O N2].
      rewrite (ns_node (K KMember lo hi)); [|reflexivity|cbn; exact N2]. cbn [mul fold_right].
      rewrite (hoist_key_clean _ _ _ _ _ _ _ _ _ VP E2).
      lia.
    - (* super property *)
      destruct cs as [|obj [|prop [|? ?]]]; try discriminate.
      apply andb_true_iff in M. destruct M as [Lo M].
      destruct fuel as [|f]; [discriminate|]. apply visit_superprop in H.
      destruct H as (obj1 & prop1 & s2 & -> & Ho & Hp).
      rewrite (ns_node (K KSuperProp lo hi)) in Z by reflexivity. cbn [mul fold_right] in Z.
      pose proof (visit_prop _ _ _ _ _ _ Hp M ltac:(lia)) as VP.
      eapply op_visit_leaf in Ho; [|exact Lo]. destruct Ho as [-> _].
      unfold hoist_member. destruct (hoist_key c prop1 span a p) as [[prop2 a2] p2] eqn:E2.
      intros X; inversion X; subst.
      rewrite (ns_node (K KSuperProp lo hi)) by reflexivity. cbn [mul fold_right].
      rewrite (hoist_key_clean _ _ _ _ _ _ _ _ _ VP E2). rewrite (ns_leaf _ Lo). lia.
  Qed.
End Visit.

Section Targets.
  Variable c : config.

  (** For every admissible target [x]: after the visit, what hoisting leaves to be written twice has
      no reference (a member-like target: its hoisted form; otherwise the whole visited target). *)
  Lemma target_clean : forall x, target_ok x = true -> ns_count x = 0 -> mu x = 0 ->
    forall fuel root s x1 s1, op_visit c fuel root x s = Some (x1, s1) ->
    forall span a p,
      match hoist_member c (peel_parens x1) span a p with
      | Some (t', _, _) => mu t' = 0
      | None => mu x1 = 0
      end.
  Proof.
    apply (node_ind' (fun x => target_ok x = true -> ns_count x = 0 -> mu x = 0 ->
      forall fuel root s x1 s1, op_visit c fuel root x s = Some (x1, s1) ->
      forall span a p,
        match hoist_member c (peel_parens x1) span a p with
        | Some (t', _, _) => mu t' = 0
        | None => mu x1 = 0
        end)).
    intros t cs IH T NZ Z fuel root s x1 s1 H span a p.
    cbn [target_ok] in T. apply orb_true_iff in T. destruct T as [T|T]; [apply orb_true_iff in T; destruct T as [T|T]|].
    - (* identifier *)
      assert (x1 = Node t cs).
      { destruct fuel as [|f]; [discriminate|]. cbn [op_visit] in H. rewrite (classify_ident _ T) in H. inversion H; reflexivity. }
      subst x1. rewrite peel_not_paren.
      + destruct t as [k lo hi| | | | | |]; try discriminate T. destruct k; try discriminate T. exact Z.
      + destruct t as [k lo hi| | | | | |]; try discriminate T. destruct k; try discriminate T. reflexivity.
    - (* member-like *)
      assert (NP : is_kind KParen x1 = false).
      { pose proof (op_visit_neutral c KComputed eq_refl _ _ _ _ _ _ H) as _.
        unfold member_like_ok in T. destruct t as [k lo hi| | | | | |]; try discriminate T.
        destruct k; try discriminate T.
        - destruct cs as [|o [|pr [|? ?]]]; try discriminate T. destruct fuel as [|f]; [discriminate|].
          apply visit_member in H. destruct H as (? & ? & ? & -> & _). reflexivity.
        - destruct cs as [|o [|pr [|? ?]]]; try discriminate T. destruct fuel as [|f]; [discriminate|].
          apply visit_superprop in H. destruct H as (? & ? & ? & -> & _). reflexivity. }
      rewrite (peel_not_paren _ NP).
      destruct (hoist_member c x1 span a p) as [[[t' a'] p']|] eqn:E.
      + eapply hoist_member_clean; [exact H | exact T | exact NZ | exact Z | exact E].
      + (* cannot happen for a member-like node, but the statement is easy: the visited node has the same references *)
        unfold member_like_ok in T. destruct t as [k lo hi| | | | | |]; try discriminate T.
        destruct k; try discriminate T.
        * destruct cs as [|o [|pr [|? ?]]]; try discriminate T. destruct fuel as [|f]; [discriminate|].
          apply visit_member in H. destruct H as (o1 & p1 & s2 & -> & _). unfold hoist_member in E.
          destruct (if (is_ident o1 || is_kind KThis o1) && negb (key_hoisted p1) then _ else _) as [[? ?] ?].
          destruct (hoist_key c p1 span _ _) as [[? ?] ?]. discriminate E.
        * destruct cs as [|o [|pr [|? ?]]]; try discriminate T. destruct fuel as [|f]; [discriminate|].
          apply visit_superprop in H. destruct H as (o1 & p1 & s2 & -> & _). unfold hoist_member in E.
          destruct (hoist_key c p1 span _ _) as [[? ?] ?]. discriminate E.
    - (* parenthesised *)
      destruct t as [k lo hi| | | | | |]; try discriminate T. destruct k; try discriminate T.
      destruct cs as [|e [|? ?]]; try discriminate T.
      destruct fuel as [|f]; [discriminate|].
      apply visit_single in H; [|left; reflexivity]. destruct H as (e1 & -> & He).
      inversion IH as [|? ? IHe _]; subst.
      rewrite (ns_node (K KParen lo hi)) in Z by reflexivity. cbn [mul fold_right] in Z.
      unfold ns_count in NZ. rewrite ns_node_nostop in NZ by reflexivity. cbn [meas_list fold_right] in NZ.
      specialize (IHe T ltac:(unfold ns_count; lia) ltac:(lia) _ _ _ _ _ He span a p).
      cbn [peel_parens].
      destruct (hoist_member c (peel_parens e1) span a p) as [[[t' a'] p']|]; [exact IHe|].
      rewrite (ns_node (K KParen lo hi)) by reflexivity. cbn [mul fold_right]. lia.
  Qed.

  Lemma peel_of_inner x : (if is_kind KParen x then peel_parens x else x) = peel_parens x.
  Proof. destruct (is_kind KParen x) eqn:E; [reflexivity | symmetry; apply peel_not_paren; exact E]. Qed.

  Corollary hoist_target_clean x fuel root s x1 s1 span p lhs' hoisted p0 :
    target_ok x = true -> ns_count x = 0 -> mu x = 0 -> op_visit c fuel root x s = Some (x1, s1) ->
    hoist_target c x1 span acc0 p = (lhs', hoisted, p0) -> mu lhs' = 0.
  Proof.
    intros T NZ Z H. unfold hoist_target. rewrite peel_of_inner.
    pose proof (target_clean x T NZ Z _ _ _ _ _ H span acc0 p) as Q.
    destruct (hoist_member c (peel_parens x1) span acc0 p) as [[[t' a'] p']|].
    - intros X; inversion X; subst.
      destruct (is_kind KParen x1); [rewrite ns_mk_paren|]; exact Q.
    - intros X; inversion X; subst. exact Q.
  Qed.

  (** The visited target is not a member on the hook namespace. *)
  Lemma target_not_ns_member : forall x, target_ok x = true -> ns_count x = 0 ->
    forall fuel root s x1 s1, op_visit c fuel root x s = Some (x1, s1) ->
    is_ns_member (peel_parens x1) = false.
  Proof.
    apply (node_ind' (fun x => target_ok x = true -> ns_count x = 0 ->
      forall fuel root s x1 s1, op_visit c fuel root x s = Some (x1, s1) ->
      is_ns_member (peel_parens x1) = false)).
    intros t cs IH T NZ fuel root s x1 s1 H.
    cbn [target_ok] in T. apply orb_true_iff in T. destruct T as [T|T]; [apply orb_true_iff in T; destruct T as [T|T]|].
    - assert (x1 = Node t cs).
      { destruct fuel as [|f]; [discriminate|]. cbn [op_visit] in H. rewrite (classify_ident _ T) in H. inversion H; reflexivity. }
      subst x1. destruct t as [k lo hi| | | | | |]; try discriminate T. destruct k; try discriminate T. reflexivity.
    - unfold member_like_ok in T. destruct t as [k lo hi| | | | | |]; try discriminate T.
      destruct k; try discriminate T.
      + destruct cs as [|o [|pr [|? ?]]]; try discriminate T. destruct fuel as [|f]; [discriminate|].
        apply visit_member in H. destruct H as (o1 & p1 & s2 & -> & Ho & _). cbn.
        destruct (is_ns_ident o1) eqn:E; [|reflexivity].
        assert (I : is_ident o1 = true).
        { destruct o1 as [[k2 l2 h2| | | | | |] ocs]; try discriminate E. destruct k2; try discriminate E. reflexivity. }
        rewrite (op_visit_ident_fix _ _ _ _ _ _ _ Ho I) in E.
        rewrite (ns_zero_member _ _ _ _ NZ) in E. discriminate E.
      + destruct cs as [|o [|pr [|? ?]]]; try discriminate T. destruct fuel as [|f]; [discriminate|].
        apply visit_superprop in H. destruct H as (o1 & p1 & s2 & -> & _). reflexivity.
    - destruct t as [k lo hi| | | | | |]; try discriminate T. destruct k; try discriminate T.
      destruct cs as [|e [|? ?]]; try discriminate T.
      destruct fuel as [|f]; [discriminate|].
      apply visit_single in H; [|left; reflexivity]. destruct H as (e1 & -> & He).
      inversion IH as [|? ? IHe _]; subst.
      unfold ns_count in NZ. rewrite ns_node_nostop in NZ by reflexivity. cbn [meas_list fold_right] in NZ.
      cbn [peel_parens]. eapply IHe; [exact T | unfold ns_count; lia | exact He].
  Qed.
End Targets.

(** The three forms of the default traversal. *)
Lemma default_visit_cases rec n s :
  (exists lo hi cx tg tp tplt tplcs, n = Node (K KTaggedTpl lo hi) [cx; tg; tp; Node tplt tplcs]) \/
  (exists lo hi opt bt bcs, n = Node (K KOptChain lo hi) [opt; Node bt bcs]) \/
  default_visit_with rec n s =
    match map_st rec (children n) s with
    | Some (cs', s') => Some (Node (tag_of n) cs', s')
    | None => None
    end.
Proof.
  destruct n as [t cs]. destruct t as [k lo hi| | | | | |]; try (right; right; reflexivity).
  destruct k; try (right; right; reflexivity).
  - destruct cs as [|cx [|tg [|tp [|[tplt tplcs] [|? ?]]]]]; try (right; right; reflexivity).
    left. eauto 10.
  - destruct cs as [|opt [|[bt bcs] [|? ?]]]; try (right; right; reflexivity).
    right; left. eauto 10.
Qed.

(** ** The operation visitor *)
Section OpLevel.
  Variable c : config.
  Hypothesis Hv : kappa = 0 \/ c_verbosity c <> VOff.     (* a weightless reference does not need the count *)
  Hypothesis Hok_plus : plus_enabled c = true -> okname (plus_name c).
  Hypothesis Hok_tpl : tpl_enabled c = true -> okname (tpl_name c).
  Hypothesis Hok_csi : forall name m, csi_get c name = Some m -> okname (m_dst m).

  Definition live (s : ostate) : Prop := t_status (o_t s) <> Cancelled.
  Definition cnt (s : ostate) : N := t_count (o_t s).
  Definition post (n' : node) (s s' : ostate) : Prop :=
    (N.of_nat (mu n') + N.of_nat kappa * cnt s = N.of_nat kappa * cnt s')%N /\ live s'.

  Lemma o_update_modified tag s : live s ->
    live (o_update c Modified tag s) /\
    (N.of_nat kappa * cnt (o_update c Modified tag s) = N.of_nat kappa * cnt s + N.of_nat kappa)%N.
  Proof.
    unfold live, cnt, o_update. cbn [o_t]. intros L.
    pose proof (update_status_modified (c_verbosity c) tag (o_t s) L) as U. cbv zeta in U.
    destruct U as (U1 & U2 & _). split; [rewrite U1; discriminate|].
    rewrite U2. destruct Hv as [K0 | Hv'].
    - rewrite K0. change (N.of_nat 0) with 0%N. rewrite !N.mul_0_l. reflexivity.
    - destruct (c_verbosity c); try (rewrite N.mul_succ_r; reflexivity). contradiction Hv'; reflexivity.
  Qed.

  Lemma o_update_notmodified tag s : o_t (o_update c NotModified tag s) = o_t s.
  Proof. unfold o_update. cbn [o_t]. apply update_status_not_modified. Qed.

  (** Lists of visited children. *)
  Lemma map_st_count (f : node -> ostate -> option (node * ostate)) :
    forall l, (forall x, In x l -> forall s x' s', f x s = Some (x', s') -> good x -> live s -> post x' s s') ->
    forall s l' s', map_st f l s = Some (l', s') -> Forall good l -> live s ->
      (N.of_nat (mul l') + N.of_nat kappa * cnt s = N.of_nat kappa * cnt s')%N /\ live s'.
  Proof.
    clear Hv.
    induction l as [|x r IH]; intros Hf s l' s' H G L; simpl in H.
    - inversion H; subst. split; [simpl; lia | exact L].
    - destruct (f x s) as [[x1 s1]|] eqn:E; [|discriminate].
      destruct (map_st f r s1) as [[r1 s2]|] eqn:E2; [|discriminate].
      inversion H; subst. inversion G; subst.
      destruct (Hf x (or_introl eq_refl) _ _ _ E H2 L) as [P1 L1].
      destruct (IH (fun y Hy => Hf y (or_intror Hy)) _ _ _ E2 H3 L1) as [P2 L2].
      split; [rewrite ns_list_cons; lia | exact L2].
  Qed.

  (** Children of a node keep their positions: the visited list is related element-wise. *)
  Lemma map_st_ident_fix fuel root : forall l s l' s',
    map_st (op_visit c fuel root) l s = Some (l', s') ->
    Forall2 (fun x x' => (is_ident x' = true -> x' = x) /\ (leaf x = true -> x' = x)) l l'.
  Proof.
    intros l s l' s' H. eapply map_st_forall2; [|exact H].
    intros x _ sx x' sx' E. split.
    - intros I. eapply op_visit_ident_fix; [exact E | exact I].
    - intros Lf. eapply op_visit_leaf in E; [tauto | exact Lf].
  Qed.

  Lemma ns_ident_is_ident n : is_ns_ident n = true -> is_ident n = true.
  Proof.
    destruct n as [[k lo hi| | | | | |] cs]; try discriminate. destruct k; try discriminate. reflexivity.
  Qed.

  (** Visited children keep the node out of the stops: a namespace identifier cannot appear as the object. *)
  Lemma stop_kind_visit t cs cs' :
    Forall2 (fun x x' => (is_ident x' = true -> x' = x) /\ (leaf x = true -> x' = x)) cs cs' ->
    stop_kind (Node t cs) = false -> stop_kind (Node t cs') = false.
  Proof.
    intros F NB. unfold stop_kind in *. apply orb_false_iff in NB. destruct NB as [NB NM].
    apply orb_false_iff. split; [exact NB|].
    destruct t as [k lo hi| | | | | |]; try reflexivity. destruct k; try reflexivity.
    inversion F as [|x x' r r' [FX _] _]; subst; [reflexivity|]. cbn in *.
    destruct (is_ns_ident x') eqn:E; [|reflexivity].
    rewrite (FX (ns_ident_is_ident _ E)) in E. congruence.
  Qed.

  Lemma visit_not_ns_member fuel root n s n1 s1 :
    op_visit c fuel root n s = Some (n1, s1) -> good n -> is_ns_member n1 = false.
  Proof.
    intros H [W NZ]. destruct (is_ns_member n1) eqn:E; [|reflexivity]. exfalso.
    assert (K1 : is_kind KMember n1 = true).
    { destruct n1 as [[k lo hi| | | | | |] cs1]; try discriminate E. destruct k; try discriminate E. reflexivity. }
    assert (NK : forall kk, kind_of n = Some kk -> kk <> KMember -> is_kind KMember n = false).
    { intros kk E1 E2. rewrite (is_kind_of _ _ _ E1). apply kind_eqb_neq. congruence. }
    assert (SAME : n1 = n -> False).
    { intros ->. destruct n as [[k lo hi| | | | | |] cs]; try discriminate E. destruct k; try discriminate E.
      destruct cs as [|obj rest]; [discriminate E|]. cbn in E. rewrite (ns_zero_member _ _ _ _ NZ) in E. discriminate E. }
    destruct fuel as [|f]; [discriminate|].
    assert (D : forall r x sx x' sx', default_visit_with (op_visit c f r) x sx = Some (x', sx') ->
                                      is_kind KMember x' = is_kind KMember x).
    { intros r x sx x' sx' E0. apply is_kind_tag. eapply default_visit_tag; exact E0. }
    cbn [op_visit] in H. pose proof (classify_kind n) as CK. destruct (classify n) eqn:Cl.
    - inversion H; subst. exact (SAME eq_refl).
    - inversion H; subst. exact (SAME eq_refl).
    - assert (X0 : is_kind KMember n = false) by (apply (NK _ CK); discriminate).
      destruct (plus_enabled c); [|apply D in H; congruence].
      destruct (default_visit_with (op_visit c f false) n s) as [[nx sx]|] eqn:E1; [|discriminate].
      inversion H; subst. apply D in E1.
      destruct (bin_step_neutral c KMember eq_refl nx sx) as [X|X]; congruence.
    - assert (X0 : is_kind KMember n = false) by (apply (NK _ CK); discriminate).
      destruct (plus_enabled c); [|apply D in H; congruence].
      destruct (default_visit_with (op_visit c f false) n s) as [[nx sx]|] eqn:E1; [|discriminate].
      inversion H; subst. apply D in E1.
      destruct (assign_step_neutral c KMember eq_refl nx sx) as [X|X]; congruence.
    - assert (X0 : is_kind KMember n = false) by (apply (NK _ CK); discriminate).
      destruct (tpl_enabled c); [|apply D in H; congruence].
      destruct (tpl_instrumentable n); [|inversion H; subst; exact (SAME eq_refl)].
      destruct (default_visit_with (op_visit c f false) n s) as [[nx sx]|] eqn:E1; [|discriminate].
      inversion H; subst. apply D in E1.
      destruct (tpl_step_neutral c KMember eq_refl nx sx) as [X|X]; congruence.
    - assert (X0 : is_kind KMember n = false) by (apply (NK _ CK); discriminate).
      destruct (default_visit_with (op_visit c f false) n s) as [[nx sx]|] eqn:E1; [|discriminate].
      inversion H; subst. apply D in E1.
      destruct (call_step_neutral c KMember eq_refl nx sx) as [X|X]; congruence.
    - (* optional chain: outside the fragment *)
      destruct n as [[k lo hi| | | | | |] cs]; try discriminate CK. inversion CK; subst k.
      apply wf_all_children in W. destruct W as [W _]. discriminate W.
    - assert (X0 : is_kind KMember n = false) by (apply (NK _ CK); discriminate).
      destruct (is_op unary_op "delete" n); [inversion H; subst; exact (SAME eq_refl) | apply D in H; congruence].
    - assert (X0 : is_kind KMember n = false) by (apply (NK _ CK); discriminate).
      inversion H; subst. unfold arrow_transform in K1.
      destruct n as [[kk lo hi| | | | | |] cs]; try discriminate CK. inversion CK; subst kk.
      destruct cs as [|cx [|params [|body [|asy [|gen [|tp [|rt [|? ?]]]]]]]]; try discriminate K1.
      destruct (is_kind KBlock body); discriminate K1.
    - inversion H; subst. exact (SAME eq_refl).
    - (* default traversal: a member stays a member over visited children *)
      pose proof (D _ _ _ _ _ H) as KN. rewrite K1 in KN. symmetry in KN.
      destruct n as [[k lo hi| | | | | |] cs]; try discriminate KN.
      unfold is_kind in KN. simpl in KN. unfold kind_eqb in KN. destruct (kind_eq_dec KMember k); [subst k | discriminate KN].
      simpl in H. destruct (map_st (op_visit c f root) cs s) as [[cs1 sy]|] eqn:M; [|discriminate]. inversion H; subst n1 sy.
      pose proof (map_st_ident_fix _ _ _ _ _ _ M) as F.
      inversion F as [|x x' r r' [FX _] _]; subst; [discriminate E|]. cbn in E.
      rewrite (FX (ns_ident_is_ident _ E)) in E. rewrite (ns_zero_member _ _ _ _ NZ) in E. discriminate E.
  Qed.

  Theorem op_visit_count : forall fuel root n s n' s',
    op_visit c fuel root n s = Some (n', s') -> good n -> live s -> post n' s s'.
  Proof.
    induction fuel as [|f IH]; intros root n s n' s' H G L; [discriminate|].
    (* generic default traversal of a plain node whose tag is neither TaggedTpl nor OptChain *)
    assert (DV : forall r t cs s0 cs' s0',
               plain (Node t cs) = true -> stop_kind (Node t cs) = false ->
               map_st (op_visit c f r) cs s0 = Some (cs', s0') -> good (Node t cs) -> live s0 ->
               post (Node t cs') s0 s0').
    { intros r t cs s0 cs' s0' P NB E G0 L0.
      destruct (map_st_count (op_visit c f r) cs (fun x _ => IH r x) _ _ _ E (good_children _ _ P G0) L0) as [A B].
      split; [|exact B]. rewrite ns_node; [exact A | exact P |].
      eapply stop_kind_visit; [eapply map_st_ident_fix; exact E | exact NB]. }
    cbn [op_visit] in H. pose proof (classify_kind n) as CK. destruct (classify n) eqn:Cl.
    - (* block *) inversion H; subst. split; [rewrite (mu_good _ G); simpl; lia | exact L].
    - (* identifier *) inversion H; subst. split; [rewrite (mu_good _ G); unfold cnt; simpl; lia | exact L].
    - (* + *)
      destruct n as [[k lo hi| | | | | |] cs]; try discriminate CK. inversion CK; subst k. clear CK.
      destruct (plus_enabled c) eqn:PE.
      + destruct (default_visit_with (op_visit c f false) (Node (K KBin lo hi) cs) s) as [[n1 s1]|] eqn:E; [|discriminate].
        simpl in E. destruct (map_st (op_visit c f false) cs s) as [[cs1 sy]|] eqn:M; [|discriminate].
        inversion E; subst n1 sy. clear E.
        destruct (DV false (K KBin lo hi) cs s cs1 s1 eq_refl eq_refl M G L) as [P1 L1].
        unfold finish in H. inversion H; subst n' s'. clear H.
        unfold post, live, cnt. rewrite o_leave_t.
        unfold bin_step. destruct (is_op bin_op "+" (Node (K KBin lo hi) cs1)); [|exact (conj P1 L1)].
        destruct (binary_transform c (Node (K KBin lo hi) cs1) (o_p s1)) as [[e'|] p2] eqn:B.
        * cbn [fst snd].
          destruct (o_update_modified (Some gen_ADD_TAG) (o_with_p p2 s1) L1) as [L2 C2].
          split; [|exact L2]. unfold cnt in *. rewrite C2. cbn [o_with_p o_t].
          (* shape of the visited children and cleanliness of kept identifiers *)
          pose proof (map_st_ident_fix _ _ _ _ _ _ M) as F2.
          pose proof (good_children (K KBin lo hi) cs eq_refl G) as GC.
          unfold binary_transform in B. destruct cs1 as [|opn1 [|l1 [|r1 [|? ?]]]]; try discriminate B.
          inversion F2 as [|opn0 ? ? ? Fo F3]; subst. inversion F3 as [|l0 ? ? ? Fl F4]; subst.
          inversion F4 as [|r0 ? ? ? Fr F5]; subst. inversion F5; subst.
          inversion GC as [|? ? _ GC2]; subst. inversion GC2 as [|? ? Gl GC3]; subst. inversion GC3 as [|? ? Gr _]; subst.
          fold (binary_transform c (Node (K KBin lo hi) [opn1; l1; r1]) (o_p s1)) in B.
          apply (binary_transform_ns (stop:=stop) (kappa:=kappa) (okname:=okname) mu_callee) in B; [|exact (Hok_plus eq_refl)| |].
          -- rewrite B. rewrite (ns_node (K KBin lo hi)) in P1 by reflexivity.
             rewrite (ns_node (K KBin lo hi)) by reflexivity. lia.
          -- intros I. rewrite (proj1 Fl I). apply mu_good; exact Gl.
          -- intros I. rewrite (proj1 Fr I). apply mu_good; exact Gr.
        * cbn [fst snd]. rewrite o_update_notmodified. exact (conj P1 L1).
      + simpl in H. destruct (map_st (op_visit c f root) cs s) as [[cs1 sy]|] eqn:M; [|discriminate].
        inversion H; subst. exact (DV root (K KBin lo hi) cs s cs1 s' eq_refl eq_refl M G L).
    - (* += *)
      destruct n as [[k lo hi| | | | | |] cs]; try discriminate CK. inversion CK; subst k. clear CK.
      destruct (plus_enabled c) eqn:PE.
      + destruct (default_visit_with (op_visit c f false) (Node (K KAssign lo hi) cs) s) as [[n1 s1]|] eqn:E; [|discriminate].
        simpl in E. destruct (map_st (op_visit c f false) cs s) as [[cs1 sy]|] eqn:M; [|discriminate].
        inversion E; subst n1 sy. clear E.
        destruct (DV false (K KAssign lo hi) cs s cs1 s1 eq_refl eq_refl M G L) as [P1 L1].
        unfold finish in H. inversion H; subst n' s'. clear H.
        unfold post, live, cnt. rewrite o_leave_t.
        unfold assign_step. destruct (is_op assign_op "+=" (Node (K KAssign lo hi) cs1)) eqn:Op; [|exact (conj P1 L1)].
        destruct (assign_transform c (Node (K KAssign lo hi) cs1) (o_p s1)) as [[e'|] p2] eqn:B.
        * cbn [fst snd].
          destruct (o_update_modified (Some gen_ADD_ASSIGN_TAG) (o_with_p p2 s1) L1) as [L2 C2].
          split; [|exact L2]. unfold cnt in *. rewrite C2. cbn [o_with_p o_t].
          pose proof (map_st_ident_fix _ _ _ _ _ _ M) as F2.
          pose proof (good_children (K KAssign lo hi) cs eq_refl G) as GC.
          destruct G as [W Z]. apply wf_all_children in W. destruct W as [W _].
          (* the shape is that of the original node *)
          destruct cs as [|opn [|lhs [|rhs [|? ?]]]]; try discriminate W;
            try (destruct opn as [[| | | |op| |] [|? ?]]; discriminate W).
          destruct opn as [[| | | |op| |] ocs]; try discriminate W. destruct ocs as [|? ?]; [|discriminate W].
          inversion F2 as [|? opn1 ? ? Fo F3]; subst. inversion F3 as [|? lhs1 ? ? Fl F4]; subst.
          inversion F4 as [|? rhs1 ? ? Fr F5]; subst. inversion F5; subst.
          inversion GC as [|? ? _ GC2]; subst. inversion GC2 as [|? ? Gl GC3]; subst. inversion GC3 as [|? ? Gr _]; subst.
          rewrite (proj2 Fo eq_refl) in *.
          (* the operator is += , hence the target is admissible *)
          assert (OpEq : String.eqb op "+=" = true).
          { unfold is_op, assign_op in Op. exact Op. }
          cbn [wf_node] in W. rewrite OpEq in W.
          (* the visited target comes from the target *)
          simpl in M. destruct (op_visit c f false (Node (Str op) []) s) as [[o1 sa]|] eqn:Mo; [|discriminate].
          destruct (op_visit c f false lhs sa) as [[l1 sb]|] eqn:Ml; [|discriminate].
          destruct (op_visit c f false rhs sb) as [[r1 sc]|] eqn:Mr; [|discriminate].
          inversion M; subst o1 l1 r1 sc. clear M.
          apply (assign_transform_ns (stop:=stop) (kappa:=kappa) (okname:=okname) mu_callee) in B; [|exact (Hok_plus eq_refl)| | | |].
          -- rewrite B. rewrite (ns_node (K KAssign lo hi)) in P1 by reflexivity.
             rewrite (ns_node (K KAssign lo hi)) by reflexivity. lia.
          -- rewrite peel_of_inner. eapply target_not_ns_member; [exact W | exact (proj2 Gl) | exact Ml].
          -- reflexivity.
          -- intros I. rewrite (proj1 Fr I). apply mu_good; exact Gr.
          -- intros lhs' hoisted p0 Hh. eapply hoist_target_clean; [exact W | exact (proj2 Gl) | apply mu_good; exact Gl | exact Ml | exact Hh].
        * cbn [fst snd]. rewrite o_update_notmodified. exact (conj P1 L1).
      + simpl in H. destruct (map_st (op_visit c f root) cs s) as [[cs1 sy]|] eqn:M; [|discriminate].
        inversion H; subst. exact (DV root (K KAssign lo hi) cs s cs1 s' eq_refl eq_refl M G L).
    - (* template *)
      destruct n as [[k lo hi| | | | | |] cs]; try discriminate CK. inversion CK; subst k. clear CK.
      destruct (tpl_enabled c) eqn:TE.
      + destruct (tpl_instrumentable (Node (K KTpl lo hi) cs)).
        * destruct (default_visit_with (op_visit c f false) (Node (K KTpl lo hi) cs) s) as [[n1 s1]|] eqn:E; [|discriminate].
          simpl in E. destruct (map_st (op_visit c f false) cs s) as [[cs1 sy]|] eqn:M; [|discriminate].
          inversion E; subst n1 sy. clear E.
          destruct (DV false (K KTpl lo hi) cs s cs1 s1 eq_refl eq_refl M G L) as [P1 L1].
          unfold finish in H. inversion H; subst n' s'. clear H.
          unfold post, live, cnt. rewrite o_leave_t. unfold tpl_step.
          destruct (template_transform c (Node (K KTpl lo hi) cs1) (o_p s1)) as [[e'|] p2] eqn:B.
          -- cbn [fst snd].
             destruct (o_update_modified (Some gen_TPL_TAG) (o_with_p p2 s1) L1) as [L2 C2].
             split; [|exact L2]. unfold cnt in *. rewrite C2. cbn [o_with_p o_t].
             apply (template_transform_ns (stop:=stop) (kappa:=kappa) (okname:=okname) mu_callee) in B; [|exact (Hok_tpl eq_refl)]. rewrite B. lia.
          -- cbn [fst snd]. rewrite o_update_notmodified. exact (conj P1 L1).
        * inversion H; subst. split; [rewrite (mu_good _ G); simpl; lia | exact L].
      + simpl in H. destruct (map_st (op_visit c f root) cs s) as [[cs1 sy]|] eqn:M; [|discriminate].
        inversion H; subst. exact (DV root (K KTpl lo hi) cs s cs1 s' eq_refl eq_refl M G L).
    - (* call *)
      destruct n as [[k lo hi| | | | | |] cs]; try discriminate CK. inversion CK; subst k. clear CK.
      destruct (default_visit_with (op_visit c f false) (Node (K KCall lo hi) cs) s) as [[n1 s1]|] eqn:E; [|discriminate].
      simpl in E. destruct (map_st (op_visit c f false) cs s) as [[cs1 sy]|] eqn:M; [|discriminate].
      inversion E; subst n1 sy. clear E.
      destruct (DV false (K KCall lo hi) cs s cs1 s1 eq_refl eq_refl M G L) as [P1 L1].
      unfold finish in H. inversion H; subst n' s'. clear H.
      unfold post, live, cnt. rewrite o_leave_t. unfold call_step.
      destruct (callee_is_expr (Node (K KCall lo hi) cs1)); [|exact (conj P1 L1)].
      destruct (call_transform c (Node (K KCall lo hi) cs1) (o_p s1)) as [[[e' tag]|] p2] eqn:B.
      + cbn [fst snd].
        destruct (o_update_modified (Some tag) (o_with_p p2 s1) L1) as [L2 C2].
        split; [|exact L2]. unfold cnt in *. rewrite C2. cbn [o_with_p o_t].
        pose proof (map_st_ident_fix _ _ _ _ _ _ M) as F2.
        pose proof (good_children (K KCall lo hi) cs eq_refl G) as GC.
        destruct G as [W Z]. apply wf_all_children in W. destruct W as [W _].
        destruct cs as [|cx [|callee [|[[| | | | | |] args] [|targs [|? ?]]]]]; try discriminate W.
        cbn [wf_node] in W. apply andb_true_iff in W. destruct W as [Wc Wt].
        simpl in M. destruct (op_visit c f false cx s) as [[cx1 sa]|] eqn:Mc; [|discriminate].
        destruct (op_visit c f false callee sa) as [[callee1 sb]|] eqn:Mk; [|discriminate].
        destruct (op_visit c f false (Node Lst args) sb) as [[x3 sc]|] eqn:Ma; [|discriminate].
        destruct (op_visit c f false targs sc) as [[targs1 sd]|] eqn:Mt; [|discriminate].
        inversion M; subst cs1 sd. clear M.
        assert (exists args1, x3 = Node Lst args1) as [args1 ->].
        { destruct f as [|f']; [discriminate|]. simpl in Ma.
          destruct (map_st (op_visit c f' false) args sb) as [[a1 sz]|]; [|discriminate]. inversion Ma; eauto. }
        eapply op_visit_leaf in Mc; [|exact Wc]. destruct Mc as [-> ->].
        eapply op_visit_leaf in Mt; [|exact Wt]. destruct Mt as [-> ->].
        inversion GC as [|? ? _ GC2]; subst. inversion GC2 as [|? ? Gk _]; subst.
        apply (call_transform_ns (stop:=stop) (kappa:=kappa) (okname:=okname) mu_callee) in B; [|exact Hok_csi| | |].
        * rewrite B. lia.
        * eapply visit_not_ns_member; [exact Mk | exact Gk].
        * split; apply ns_leaf; assumption.
        * intros I. rewrite (op_visit_ident_fix _ _ _ _ _ _ _ Mk I). apply mu_good; exact Gk.
      + cbn [fst snd]. exact (conj P1 L1).
    - (* optional chain: outside the fragment *)
      destruct n as [[k lo hi| | | | | |] cs]; try discriminate CK. inversion CK; subst k.
      destruct G as [W _]. apply wf_all_children in W. destruct W as [W _]. discriminate W.
    - (* unary *)
      destruct n as [[k lo hi| | | | | |] cs]; try discriminate CK. inversion CK; subst k. clear CK.
      destruct (is_op unary_op "delete" (Node (K KUnary lo hi) cs)).
      + inversion H; subst. split; [rewrite (mu_good _ G); simpl; lia | exact L].
      + simpl in H. destruct (map_st (op_visit c f root) cs s) as [[cs1 sy]|] eqn:M; [|discriminate].
        inversion H; subst. exact (DV root (K KUnary lo hi) cs s cs1 s' eq_refl eq_refl M G L).
    - (* arrow *)
      inversion H; subst. split; [rewrite (mu_arrow _ G); simpl; lia | exact L].
    - (* leaf *)
      inversion H; subst. split; [rewrite (mu_good _ G); simpl; lia | exact L].
    - (* everything else: default traversal *)
      assert (P : plain n = true).
      { unfold plain. destruct n as [[k lo hi| | | | | |] cs]; try reflexivity; try discriminate Cl.
        destruct k; simpl in Cl; try discriminate Cl; try reflexivity. }
      assert (NB : stop_kind n = false).
      { destruct n as [[k lo hi| | | | | |] cs]; try reflexivity. destruct k; try reflexivity; try (simpl in Cl; discriminate Cl).
        destruct cs as [|obj rest]; [reflexivity|]. cbn. exact (ns_zero_member _ _ _ _ (proj2 G)). }
      destruct n as [t cs].
      assert (GEN : forall cs1, map_st (op_visit c f root) cs s = Some (cs1, s') -> n' = Node t cs1 -> post n' s s').
      { intros cs1 M ->. exact (DV root t cs s cs1 s' P NB M G L). }
      destruct (default_visit_cases (op_visit c f root) (Node t cs) s) as [TT | [OC | GN]].
      + (* tagged template: the template part is visited through its children *)
        destruct TT as (lo & hi & cx & tg & tp & tplt & tplcs & EQ). inversion EQ; subst t cs. clear EQ.
        cbn [default_visit_with] in H.
        destruct (map_st (op_visit c f root) [cx; tg; tp] s) as [[l1 s1]|] eqn:M1; [|discriminate].
        destruct l1 as [|cx' [|tg' [|tp' [|? ?]]]]; try discriminate.
        destruct (map_st (op_visit c f root) tplcs s1) as [[l2 s2]|] eqn:M2; [|discriminate].
        inversion H; subst n' s2. clear H.
        pose proof (good_children _ _ P G) as GC.
        destruct G as [W Z]. apply wf_all_children in W. destruct W as [W _]. cbn [wf_node] in W.
        assert (exists tlo thi, tplt = K KTpl tlo thi) as (tlo & thi & ->).
        { unfold is_kind in W. destruct tplt as [k2 l2' h2'| | | | | |]; try discriminate W. simpl in W.
          unfold kind_eqb in W. destruct (kind_eq_dec KTpl k2); [subst; eauto | discriminate]. }
        inversion GC as [|? ? G1 GC2]; subst. inversion GC2 as [|? ? G2 GC3]; subst.
        inversion GC3 as [|? ? G3 GC4]; subst. inversion GC4 as [|? ? G4 _]; subst.
        destruct (map_st_count (op_visit c f root) [cx; tg; tp] (fun x _ => IH root x) _ _ _ M1
                    (Forall_cons _ G1 (Forall_cons _ G2 (Forall_cons _ G3 (Forall_nil _)))) L) as [A1 L1].
        destruct (map_st_count (op_visit c f root) tplcs (fun x _ => IH root x) _ _ _ M2
                    (good_children (K KTpl tlo thi) tplcs eq_refl G4) L1) as [A2 L2].
        split; [|exact L2].
        rewrite (ns_node (K KTaggedTpl lo hi)) by reflexivity. cbn [mul fold_right].
        rewrite (ns_node (K KTpl tlo thi)) by reflexivity. cbn [mul fold_right] in A1.
        unfold cnt in *. lia.
      + (* optional chain: its class is not OOther *)
        destruct OC as (lo & hi & opt & bt & bcs & EQ). inversion EQ; subst. simpl in Cl. discriminate Cl.
      + rewrite GN in H. cbn [children tag_of] in H.
        destruct (map_st (op_visit c f root) cs s) as [[cs1 sy]|] eqn:M; [|discriminate].
        inversion H; subst. exact (DV root t cs s cs1 s' P NB M G L).
  Qed.
End OpLevel.
End Generic.

(** ** Instance: the number of references to the hook namespace *)
Theorem op_visit_count_ns c : c_verbosity c <> VOff -> forall fuel root n s n' s',
  op_visit c fuel root n s = Some (n', s') -> good n -> live s ->
  (N.of_nat (ns_count n') + cnt s = cnt s')%N /\ live s'.
Proof.
  intros Hv fuel root n s n' s' H G L.
  destruct (op_visit_count no_stop 1 (fun n G => proj2 G)
              (fun n G => eq_trans (arrow_transform_ns n) (proj2 G))
              (fun _ => True) (fun name span _ => eq_refl) c (or_intror Hv) (fun _ => I) (fun _ => I) (fun _ _ _ => I)
              _ _ _ _ _ _ H G L) as [A B].
  split; [|exact B]. change (N.of_nat 1) with 1%N in A. rewrite !N.mul_1_l in A. exact A.
Qed.
