(** * C05 -- lemmas about configuration lookups and the [to_config] model. *)
From Coq Require Import String List NArith Bool Ascii Arith Lia.
From IastRw Require Import Ast Generated Config ToConfig Model.
Import ListNotations.

Lemma find_some_in {A} (f : A -> bool) l x : find f l = Some x -> In x l /\ f x = true.
Proof. apply find_some. Qed.

Lemma csi_get_configured c name m :
  csi_get c name = Some m -> In (m_dst m) (configured_dsts c) /\ m_src m = name /\ m_operator m = false.
Proof.
  unfold csi_get, configured_dsts. intros H. apply find_some in H. destruct H as [Hin Hf].
  apply andb_true_iff in Hf. destruct Hf as [Ho Hs].
  split; [apply in_map; exact Hin|]. split.
  - apply String.eqb_eq in Hs. exact Hs.
  - destruct (m_operator m); [discriminate | reflexivity].
Qed.

Lemma operator_name_configured c name :
  match find_operator name (c_methods c) with
  | Some m => In (m_dst m) (configured_dsts c)
  | None => True
  end.
Proof.
  unfold find_operator, configured_dsts. destruct (find _ (c_methods c)) as [m|] eqn:E; [|exact I].
  apply find_some in E. apply in_map. exact (proj1 E).
Qed.

Lemma plus_name_configured c : plus_enabled c = true -> In (plus_name c) (configured_dsts c).
Proof.
  unfold plus_enabled, plus_name, plus_operator. pose proof (operator_name_configured c gen_DD_PLUS_OPERATOR) as H.
  destruct (find_operator gen_DD_PLUS_OPERATOR (c_methods c)); [intros _; exact H | discriminate].
Qed.

Lemma tpl_name_configured c : tpl_enabled c = true -> In (tpl_name c) (configured_dsts c).
Proof.
  unfold tpl_enabled, tpl_name, tpl_operator. pose proof (operator_name_configured c gen_DD_TEMPLATE_LITERAL_OPERATOR) as H.
  destruct (find_operator gen_DD_TEMPLATE_LITERAL_OPERATOR (c_methods c)); [intros _; exact H | discriminate].
Qed.

Lemma replace_without_callee_flag c callee call p e tag p' :
  replace_without_callee c callee call p = (Some (e, tag), p') ->
  exists m, csi_get c tag = Some m /\ m_awc m = true /\ ident_sym callee = Some tag.
Proof.
  unfold replace_without_callee. destruct (ident_sym callee) as [name|]; [|discriminate].
  destruct (csi_get c name) as [m|] eqn:E; [|discriminate].
  destruct (m_awc m) eqn:Ea; [|discriminate].
  destruct (replace_callee_and_args c call None None _ p) as [[call' a1] p1].
  intros H; inversion H; subst. exists m. auto.
Qed.

(** ** [to_config] *)
Lemma rnd_chars_length rnd al : forall n i, String.length (rnd_chars rnd al i n) = n.
Proof. induction n as [|n IH]; intros i; simpl; [reflexivity | f_equal; apply IH]. Qed.

Lemma get_in s : forall i ch, String.get i s = Some ch -> In ch (list_ascii_of_string s).
Proof.
  induction s as [|a r IH]; intros i ch H; simpl in *; [discriminate|].
  destruct i as [|i]; [inversion H; left; reflexivity | right; eapply IH; exact H].
Qed.

Lemma get_lt s : forall i, i < String.length s -> exists ch, String.get i s = Some ch.
Proof.
  induction s as [|a r IH]; intros i H; simpl in *; [lia|].
  destruct i as [|i]; [eexists; reflexivity | apply IH; lia].
Qed.

Lemma rnd_chars_alphabet rnd al : String.length al <> 0 ->
  forall n i ch, In ch (list_ascii_of_string (rnd_chars rnd al i n)) -> In ch (list_ascii_of_string al).
Proof.
  intros Hal. induction n as [|n IH]; intros i ch H; simpl in H; [contradiction|].
  destruct H as [H|H]; [|eapply IH; exact H].
  subst ch. unfold nth_char.
  destruct (get_lt al (rnd i mod String.length al)) as [x Hx]; [apply Nat.mod_upper_bound; exact Hal|].
  rewrite Hx. eapply get_in; exact Hx.
Qed.

Lemma to_config_defaults rnd :
  let c := to_config rnd raw_default in
  c_chain c = false /\ c_comments c = false /\ c_literals c = true /\
  c_verbosity c = VInformation /\ c_methods c = [] /\
  String.length (c_prefix c) = 6 /\
  (forall ch, In ch (list_ascii_of_string (c_prefix c)) -> In ch (list_ascii_of_string gen_rnd_alphabet)).
Proof.
  cbv zeta. unfold to_config, to_config_with, raw_default. cbn [c_chain c_comments c_literals c_verbosity c_methods c_prefix
    r_chain r_comments r_literals r_verbosity r_methods r_methods_opt r_prefix opt_default map].
  do 5 (split; [reflexivity|]). split.
  - unfold rnd_string. apply rnd_chars_length.
  - unfold rnd_string. apply rnd_chars_alphabet. discriminate.
Qed.

Lemma to_config_dst rnd r m :
  In m (c_methods (to_config rnd r)) ->
  exists rm, In rm (r_methods r) /\ m_src m = rm_src rm /\
             m_dst m = match rm_dst rm with Some d => d | None => rm_src rm end.
Proof.
  unfold to_config, to_config_with. cbn [c_methods]. intros H. apply in_map_iff in H.
  destruct H as (rm & Hm & Hin). exists rm. subst m. unfold method_of_raw, opt_default. simpl. auto.
Qed.

(** The verbosity table: the four words in any ASCII case, everything else INFORMATION. *)
Lemma parse_verbosity_absent : parse_verbosity None = VInformation.
Proof. reflexivity. Qed.

Lemma parse_verbosity_total o : In (parse_verbosity o) [VOff; VMandatory; VInformation; VDebug].
Proof. destruct (parse_verbosity o); simpl; auto. Qed.
