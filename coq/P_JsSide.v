From Coq Require Import String List NArith Bool.
From IastRw Require Import SrcMap JsSide.
Import ListNotations.

Section CacheFacts.
  Context {M : Type}.
  Notation cache := (@cache M).

  Lemma cache_get_remove_same (c : cache) f : cache_get (cache_remove c f) f = None.
  Proof.
    induction c as [|[g m] r IH]; simpl; [reflexivity|].
    destruct (String.eqb f g) eqn:E; [exact IH|]. simpl. rewrite E. exact IH.
  Qed.

  Lemma cache_get_remove_other (c : cache) f g : String.eqb g f = false ->
    cache_get (cache_remove c f) g = cache_get c g.
  Proof.
    intros H. induction c as [|[k m] r IH]; simpl; [reflexivity|].
    destruct (String.eqb f k) eqn:E.
    - apply String.eqb_eq in E. subst k. rewrite H. exact IH.
    - simpl. destruct (String.eqb g k); [reflexivity | exact IH].
  Qed.

  Lemma cache_step_get (c : cache) (e : rewrite_event) f :
    cache_get (cache_step c e) f = if String.eqb f (fst e) then snd e else cache_get c f.
  Proof.
    unfold cache_step. destruct e as [g o]. simpl. destruct o as [m|]; simpl.
    - destruct (String.eqb f g) eqn:E; [reflexivity|]. apply cache_get_remove_other. exact E.
    - destruct (String.eqb f g) eqn:E.
      + apply String.eqb_eq in E. subst g. apply cache_get_remove_same.
      + apply cache_get_remove_other. exact E.
  Qed.

  Lemma aux_spec (h : list (@rewrite_event M)) f :
    last_rewrite_map h f = match last_rewrite_map_rev_aux h f with Some r => r | None => None end.
  Proof. reflexivity. Qed.

  (** Folding from a cache [c]: the result is the last event for [f] if there is one, else [c]'s entry. *)
  Lemma fold_cache (h : list (@rewrite_event M)) : forall (c : cache) f,
    cache_get (fold_left cache_step h c) f =
    match last_rewrite_map_rev_aux h f with Some r => r | None => cache_get c f end.
  Proof.
    induction h as [|e r IH]; intros c f; simpl; [reflexivity|].
    rewrite IH. destruct (last_rewrite_map_rev_aux r f); [reflexivity|].
    rewrite cache_step_get. destruct (String.eqb f (fst e)); reflexivity.
  Qed.

  Theorem cache_last_rewrite (h : list (@rewrite_event M)) f :
    cache_get (fold_left cache_step h []) f = last_rewrite_map h f.
  Proof. rewrite fold_cache, aux_spec. destruct (last_rewrite_map_rev_aux h f); reflexivity. Qed.
End CacheFacts.

Lemma unknown_file_identity (c : list (string * list (@token (string * N * N)))) f line col :
  cache_get c f = None -> path_and_line c f line col = (f, line, col).
Proof. intros H. unfold path_and_line. rewrite H. reflexivity. Qed.
