(** * C10 / C16 -- the comment used is the qualifying one that comes last in the file, whatever the order in
    which the comment store is iterated. *)
From Coq Require Import String List NArith Bool Lia Permutation.
From IastRw Require Import Generated Comments.
Import ListNotations.

Section Facts.
  Variable q : string -> bool.

  Definition later_all (c : comment) (l : list comment) : Prop :=
    forall p t, In (p, t) l -> q t = true -> (p <= fst c)%N.

  (** What the loop returns: a qualifying comment of the list (or the accumulator) at the greatest position. *)
  Lemma select_from_spec : forall l acc,
    (forall c, acc = Some c -> q (snd c) = true) ->
    match select_from q acc l with
    | Some c =>
        q (snd c) = true /\ (In c l \/ acc = Some c) /\ later_all c l /\
        (forall a, acc = Some a -> (fst a <= fst c)%N)
    | None => acc = None /\ forall p t, In (p, t) l -> q t = false
    end.
  Proof.
    induction l as [|[pos text] r IH]; intros acc Hacc.
    - simpl. destruct acc as [c|]; [|split; [reflexivity | intros ? ? []]].
      repeat split; [apply Hacc; reflexivity | right; reflexivity | intros ? ? [] | intros a Ha; inversion Ha; lia].
    - cbn [select_from]. destruct (q text) eqn:Q.
      + destruct acc as [[p0 t0]|].
        * unfold gen_comment_skip. destruct (N.leb pos p0) eqn:L.
          -- specialize (IH (Some (p0, t0)) Hacc). destruct (select_from q (Some (p0, t0)) r) as [c|].
             ++ destruct IH as (A & B & C & D). repeat split; [exact A | | | exact D].
                ** destruct B as [B|B]; [left; right; exact B | right; exact B].
                ** intros p t [E|E] Ht; [inversion E; subst; apply N.leb_le in L; specialize (D _ eq_refl); simpl in D; lia | eapply C; eassumption].
             ++ destruct IH as [X _]. discriminate X.
          -- assert (H2 : forall c, Some (pos, text) = Some c -> q (snd c) = true) by (intros c Hc; inversion Hc; exact Q).
             specialize (IH (Some (pos, text)) H2). destruct (select_from q (Some (pos, text)) r) as [c|].
             ++ destruct IH as (A & B & C & D). apply N.leb_gt in L. repeat split; [exact A | | | ].
                ** destruct B as [B|B]; [left; right; exact B | left; left; inversion B; reflexivity].
                ** intros p t [E|E] Ht; [inversion E; subst; apply (D _ eq_refl) | eapply C; eassumption].
                ** intros a Ha. inversion Ha; subst. specialize (D _ eq_refl). simpl in *. lia.
             ++ destruct IH as [X _]. discriminate X.
        * assert (H2 : forall c, Some (pos, text) = Some c -> q (snd c) = true) by (intros c Hc; inversion Hc; exact Q).
          specialize (IH (Some (pos, text)) H2). destruct (select_from q (Some (pos, text)) r) as [c|].
          -- destruct IH as (A & B & C & D). repeat split; [exact A | | | intros a Ha; discriminate Ha].
             ** destruct B as [B|B]; [left; right; exact B | left; left; inversion B; reflexivity].
             ** intros p t [E|E] Ht; [inversion E; subst; apply (D _ eq_refl) | eapply C; eassumption].
          -- destruct IH as [X _]. discriminate X.
      + specialize (IH acc Hacc). destruct (select_from q acc r) as [c|].
        * destruct IH as (A & B & C & D). repeat split; [exact A | | | exact D].
          -- destruct B as [B|B]; [left; right; exact B | right; exact B].
          -- intros p t [E|E] Ht; [inversion E; subst; congruence | eapply C; eassumption].
        * destruct IH as [X Y]. split; [exact X|]. intros p t [E|E]; [inversion E; subst; exact Q | eapply Y; exact E].
  Qed.

  Lemma select_from_some l acc c :
    (forall a, acc = Some a -> q (snd a) = true) -> select_from q acc l = Some c ->
    q (snd c) = true /\ (In c l \/ acc = Some c) /\ later_all c l.
  Proof. intros Hacc E. pose proof (select_from_spec l acc Hacc) as S. rewrite E in S. tauto. Qed.

  Lemma select_from_none l acc :
    (forall a, acc = Some a -> q (snd a) = true) -> select_from q acc l = None ->
    forall p t, In (p, t) l -> q t = false.
  Proof. intros Hacc E. pose proof (select_from_spec l acc Hacc) as S. rewrite E in S. tauto. Qed.

  Theorem select_is_last l :
    match select q l with
    | Some c => In c l /\ q (snd c) = true /\ forall p t, In (p, t) l -> q t = true -> (p <= fst c)%N
    | None => forall p t, In (p, t) l -> q t = false
    end.
  Proof.
    assert (H0 : forall a : comment, None = Some a -> q (snd a) = true) by (intros a H; discriminate H).
    destruct (select q l) as [c|] eqn:E; unfold select in E.
    - destruct (select_from_some l None c H0 E) as (A & B & C). destruct B as [B|B]; [|discriminate B]. auto.
    - exact (select_from_none l None H0 E).
  Qed.

  (** Independence of the iteration order: when no two qualifying comments share a position (two comments never
      start at the same byte), every permutation of the comments gives the same result. *)
  Theorem select_order_independent l l' :
    Permutation l l' ->
    (forall p t t', In (p, t) l -> In (p, t') l -> q t = true -> q t' = true -> t = t') ->
    select q l = select q l'.
  Proof.
    intros P U. pose proof (select_is_last l) as S1. pose proof (select_is_last l') as S2.
    destruct (select q l) as [[p1 t1]|] eqn:E1; destruct (select q l') as [[p2 t2]|] eqn:E2; try reflexivity.
    - destruct S1 as (I1 & Q1 & M1). destruct S2 as (I2 & Q2 & M2). cbn [fst snd] in *.
      apply (Permutation_in _ (Permutation_sym P)) in I2.
      pose proof (M1 _ _ I2 Q2) as A. pose proof (Permutation_in _ P I1) as I1'. pose proof (M2 _ _ I1' Q1) as B.
      assert (p1 = p2) by lia. subst p2. rewrite (U _ _ _ I1 I2 Q1 Q2). reflexivity.
    - destruct S1 as (I1 & Q1 & _). cbn [snd] in Q1. apply (Permutation_in _ P) in I1. rewrite (S2 _ _ I1) in Q1. discriminate Q1.
    - destruct S2 as (I2 & Q2 & _). cbn [snd] in Q2. apply (Permutation_in _ (Permutation_sym P)) in I2. rewrite (S1 _ _ I2) in Q2. discriminate Q2.
  Qed.
End Facts.
