(** * Proofs about source-map lookups, chaining, the binary search and the VLQ codec. *)
From Coq Require Import String List NArith ZArith Bool Ascii Arith Lia.
From IastRw Require Import SrcMap.
Import ListNotations.

(** ** Order facts *)
Lemma ple_refl a : ple a a = true.
Proof. unfold ple. rewrite N.eqb_refl, N.leb_refl. apply orb_true_r. Qed.

Lemma ple_spec a b : ple a b = true <-> (fst a < fst b \/ (fst a = fst b /\ snd a <= snd b))%N.
Proof.
  unfold ple. rewrite orb_true_iff, andb_true_iff, N.ltb_lt, N.eqb_eq, N.leb_le. tauto.
Qed.

Lemma plt_spec a b : plt a b = true <-> (fst a < fst b \/ (fst a = fst b /\ snd a < snd b))%N.
Proof.
  unfold plt. rewrite orb_true_iff, andb_true_iff, N.ltb_lt, N.eqb_eq, N.ltb_lt. tauto.
Qed.

Lemma ple_trans a b c : ple a b = true -> ple b c = true -> ple a c = true.
Proof. rewrite !ple_spec. lia. Qed.

Lemma plt_not_ple a b : plt a b = negb (ple b a).
Proof.
  destruct (plt a b) eqn:E1; destruct (ple b a) eqn:E2; try reflexivity; exfalso.
  - apply plt_spec in E1. apply ple_spec in E2. lia.
  - assert (~ (fst a < fst b \/ fst a = fst b /\ snd a < snd b)%N) by (rewrite <- plt_spec; congruence).
    assert (~ (fst b < fst a \/ fst b = fst a /\ snd b <= snd a)%N) by (rewrite <- ple_spec; congruence).
    lia.
Qed.

Lemma ple_total a b : ple a b = true \/ ple b a = true.
Proof.
  destruct (ple a b) eqn:E; [auto|]. right. apply ple_spec.
  assert (~ (fst a < fst b \/ fst a = fst b /\ snd a <= snd b)%N) by (rewrite <- ple_spec; congruence). lia.
Qed.

Section LookupFacts.
  Context {A : Type}.
  Notation token := (@token A).

  (** ** [lookup] is the greatest lower bound on a sorted list. *)
  Definition is_glb (m : list token) (p : pos) (t : token) : Prop :=
    In t m /\ ple (fst t) p = true /\ forall t', In t' m -> ple (fst t') p = true -> ple (fst t') (fst t) = true.

  Lemma lookup_from_spec : forall (m : list token) acc p,
    sorted m ->
    (forall a t, acc = Some a -> In t m -> ple (fst a) (fst t) = true) ->
    match lookup_from acc m p with
    | Some r => (acc = Some r \/ In r m) /\
                (acc = Some r \/ ple (fst r) p = true) /\
                (forall t', In t' m -> ple (fst t') p = true -> ple (fst t') (fst r) = true)
    | None => acc = None /\ forall t', In t' m -> ple (fst t') p = false
    end.
  Proof.
    induction m as [|t m IH]; intros acc p Hs Hacc; simpl.
    - destruct acc as [a|]; [repeat split; auto; intros ? []|split; auto; intros ? []].
    - destruct Hs as [Ht Hs].
      destruct (ple (fst t) p) eqn:E.
      + specialize (IH (Some t) p Hs).
        assert (X : forall a t0, Some t = Some a -> In t0 m -> ple (fst a) (fst t0) = true).
        { intros a t0 Ha Hin. inversion Ha; subst. apply Ht. exact Hin. }
        specialize (IH X). destruct (lookup_from (Some t) m p) as [r|].
        * destruct IH as (I1 & I2 & I3). split; [|split].
          -- destruct I1 as [I1|I1]; [inversion I1; subst; right; left; reflexivity | right; right; exact I1].
          -- destruct I2 as [I2|I2]; [inversion I2; subst; right; exact E | right; exact I2].
          -- intros t' [<-|Hin] Hp.
             ++ destruct I1 as [I1|I1]; [inversion I1; subst; apply ple_refl | apply Ht; exact I1].
             ++ apply I3; assumption.
        * destruct IH as [I1 _]. discriminate.
      + specialize (IH acc p Hs).
        assert (X : forall a t0, acc = Some a -> In t0 m -> ple (fst a) (fst t0) = true).
        { intros a t0 Ha Hin. eapply Hacc; [exact Ha | right; exact Hin]. }
        specialize (IH X). destruct (lookup_from acc m p) as [r|].
        * destruct IH as (I1 & I2 & I3). split; [|split].
          -- destruct I1; auto.
          -- exact I2.
          -- intros t' [<-|Hin] Hp; [congruence | apply I3; assumption].
        * destruct IH as [I1 I2]. split; [exact I1|]. intros t' [<-|Hin]; [exact E | apply I2; exact Hin].
  Qed.

  Theorem lookup_glb (m : list token) p :
    sorted m ->
    match lookup m p with
    | Some r => is_glb m p r
    | None => forall t, In t m -> ple (fst t) p = false
    end.
  Proof.
    intros Hs. unfold lookup.
    pose proof (lookup_from_spec m None p Hs) as H.
    assert (X : forall a t, @None token = Some a -> In t m -> ple (fst a) (fst t) = true) by (intros; discriminate).
    specialize (H X).
    match type of H with match ?l with _ => _ end => destruct l as [r|] eqn:E end.
    - destruct H as (I1 & I2 & I3). unfold is_glb.
      destruct I1 as [I1|I1]; [discriminate|]. destruct I2 as [I2|I2]; [discriminate|].
      unfold SrcMap.token in *. rewrite E. auto.
    - unfold SrcMap.token in *. rewrite E. exact (proj2 H).
  Qed.

  (** ** The binary search of [findEntry] returns a mapping with the greatest key <= the position
      (and nothing iff every mapping is after the position). *)
  Definition key_sorted (m : list token) : Prop :=
    forall i j a b, i <= j -> nth_error m i = Some a -> nth_error m j = Some b -> ple (fst a) (fst b) = true.

  Lemma sorted_key_sorted (m : list token) : sorted m -> key_sorted m.
  Proof.
    induction m as [|t m IH]; intros Hs i j a b Hij Ha Hb.
    - destruct i; discriminate.
    - destruct Hs as [Ht Hs]. destruct i as [|i]; destruct j as [|j]; simpl in *.
      + inversion Ha; inversion Hb; subst. apply ple_refl.
      + inversion Ha; subst. apply Ht. eapply nth_error_In; exact Hb.
      + lia.
      + eapply IH; [exact Hs| |exact Ha|exact Hb]. lia.
  Qed.

  (** Loop invariant: everything before or at [first] (except possibly index 0 itself when
      [first = 0]) is <= p; everything from [first + count] on is > p. *)
  Lemma find_loop_inv (m : list token) p : key_sorted m ->
    forall fuel first count,
      count <= fuel -> 1 <= count -> first + count <= length m ->
      (first = 0 \/ forall e, nth_error m first = Some e -> ple (fst e) p = true) ->
      (forall j e, first + count <= j -> nth_error m j = Some e -> plt p (fst e) = true) ->
      let r := find_loop fuel m first count p in
      r < length m /\
      (r = 0 \/ forall e, nth_error m r = Some e -> ple (fst e) p = true) /\
      (forall j e, r < j -> nth_error m j = Some e -> plt p (fst e) = true).
  Proof.
    intros Hk. induction fuel as [|f IH]; intros first count Hf Hc Hlen Hlo Hhi; [lia|].
    cbn [find_loop]. destruct (Nat.leb count 1) eqn:E1.
    - apply Nat.leb_le in E1. assert (count = 1) by lia. subst count.
      split; [lia|]. split; [exact Hlo|].
      intros j e Hj He. apply Hhi with j; [lia | exact He].
    - apply Nat.leb_gt in E1.
      assert (Hd : Nat.div2 count < count /\ 1 <= Nat.div2 count /\ 1 <= count - Nat.div2 count /\
                   count - Nat.div2 count <= f /\ Nat.div2 count <= f).
      { pose proof (Nat.div2_decr count f) as D. destruct count as [|[|c]]; try lia.
        assert (Nat.div2 (S (S c)) = S (Nat.div2 c)) by reflexivity.
        assert (Nat.div2 c <= c) by (apply Nat.div2_decr; lia). lia. }
      destruct Hd as (D1 & D2 & D3 & D4 & D5).
      destruct (nth_error m (first + Nat.div2 count)) as [mp|] eqn:En.
      + destruct (plt p (fst mp)) eqn:Ep.
        * apply IH; try lia; [exact Hlo|].
          intros j e Hj He.
          destruct (Nat.le_gt_cases (first + count) j) as [G|G]; [apply Hhi with j; assumption|].
          assert (M : ple (fst mp) (fst e) = true) by (eapply Hk; [|exact En|exact He]; lia).
          rewrite plt_not_ple in *. apply negb_true_iff in Ep. apply negb_true_iff.
          destruct (ple (fst e) p) eqn:Q; [|reflexivity].
          rewrite (ple_trans _ _ _ M Q) in Ep. discriminate.
        * apply IH; try lia.
          -- right. intros e He. rewrite En in He. inversion He; subst.
             rewrite plt_not_ple in Ep. apply negb_false_iff in Ep. exact Ep.
          -- intros j e Hj He. apply Hhi with j; [lia | exact He].
      + apply nth_error_None in En. lia.
  Qed.

  Theorem find_entry_glb (m : list token) p : sorted m ->
    match find_entry m p with
    | Some r => In r m /\ ple (fst r) p = true /\
                forall t', In t' m -> ple (fst t') p = true -> ple (fst t') (fst r) = true
    | None => forall t, In t m -> ple (fst t) p = false
    end.
  Proof.
    intros Hs. pose proof (sorted_key_sorted m Hs) as Hk. unfold find_entry.
    destruct m as [|t0 m0] eqn:Em; [simpl; intros ? []|]. rewrite <- Em in *.
    assert (L : 1 <= length m) by (subst m; simpl; lia).
    pose proof (find_loop_inv m p Hk (length m) 0 (length m) (le_n _) L (le_n _) (or_introl eq_refl)) as I.
    assert (Hhi : forall j e, 0 + length m <= j -> nth_error m j = Some e -> plt p (fst e) = true).
    { intros j e Hj He. assert (nth_error m j = None) by (apply nth_error_None; lia). congruence. }
    specialize (I Hhi). cbv zeta in I. set (r := find_loop (length m) m 0 (length m) p) in *.
    destruct I as (I1 & I2 & I3).
    destruct (nth_error m r) as [e|] eqn:Er; [|apply nth_error_None in Er; lia].
    assert (Above : forall t', In t' m -> ple (fst t') p = true -> ple (fst t') (fst e) = true).
    { intros t' Hin Hp. apply In_nth_error in Hin. destruct Hin as [j Hj].
      destruct (Nat.le_gt_cases j r) as [G|G]; [eapply Hk; [exact G|exact Hj|exact Er]|].
      specialize (I3 j t' G Hj). rewrite plt_not_ple, Hp in I3. discriminate. }
    destruct (Nat.eqb r 0 && plt p (fst e))%bool eqn:Ec.
    - apply andb_true_iff in Ec. destruct Ec as [Ec1 Ec2]. apply Nat.eqb_eq in Ec1.
      intros t Hin. destruct (ple (fst t) p) eqn:Q; [|reflexivity]. exfalso.
      apply In_nth_error in Hin. destruct Hin as [j Hj].
      assert (M : ple (fst e) (fst t) = true) by (eapply Hk; [|exact Er|exact Hj]; lia).
      rewrite plt_not_ple in Ec2. apply negb_true_iff in Ec2.
      rewrite (ple_trans _ _ _ M Q) in Ec2. discriminate.
    - split; [eapply nth_error_In; exact Er|]. split; [|exact Above].
      apply andb_false_iff in Ec. destruct I2 as [I2|I2].
      + destruct Ec as [Ec|Ec]; [apply Nat.eqb_neq in Ec; contradiction|].
        rewrite plt_not_ple in Ec. apply negb_false_iff in Ec. exact Ec.
      + apply I2. reflexivity.
  Qed.
End LookupFacts.

(** ** Chaining is composition *)
Section ChainFacts.
  Context {B : Type}.

  Lemma lookup_from_app {A} (a b : list (@token A)) acc p :
    lookup_from acc (a ++ b) p = lookup_from (lookup_from acc a p) b p.
  Proof. revert acc. induction a as [|t a IH]; intros acc; simpl; [reflexivity | apply IH]. Qed.

  Definition retarget (m2 : list (@token B)) (t : @token pos) : option (@token B) :=
    match lookup m2 (snd t) with Some o => Some (fst t, snd o) | None => None end.

  Definition resolves (m2 : list (@token B)) (t : @token pos) : bool :=
    match lookup m2 (snd t) with Some _ => true | None => false end.

  Lemma chain_total_from (m2 : list (@token B)) p : forall (m1 : list (@token pos)) (acc1 : option (@token pos)),
    (forall t, In t m1 -> resolves m2 t = true) ->
    (forall a, acc1 = Some a -> resolves m2 a = true) ->
    lookup_from (match acc1 with Some a => retarget m2 a | None => None end) (chain m1 m2) p =
    match lookup_from acc1 m1 p with Some t => retarget m2 t | None => None end.
  Proof.
    induction m1 as [|t m1 IH]; intros acc1 Hall Hacc; [reflexivity|].
    cbn [chain flat_map]. fold (chain m1 m2). rewrite lookup_from_app. cbn [lookup_from].
    assert (Rt : resolves m2 t = true) by (apply Hall; left; reflexivity).
    unfold resolves in Rt. destruct (lookup m2 (snd t)) as [o|] eqn:Eo; [|discriminate].
    cbn [lookup_from fst].
    destruct (ple (fst t) p) eqn:Ep.
    - specialize (IH (Some t)). cbn [retarget] in IH. unfold retarget in IH at 1. rewrite Eo in IH.
      apply IH.
      + intros t' Ht'. apply Hall. right. exact Ht'.
      + intros a Ha. inversion Ha; subst. unfold resolves. rewrite Eo. reflexivity.
    - apply IH.
      + intros t' Ht'. apply Hall. right. exact Ht'.
      + exact Hacc.
  Qed.

  (** When every token of the rewrite map resolves in the original map, looking a position up in
      the chained map is looking it up in the rewrite map and then in the original map. *)
  Theorem chain_is_composition (m1 : list (@token pos)) (m2 : list (@token B)) p :
    (forall t, In t m1 -> resolves m2 t = true) ->
    lookup (chain m1 m2) p = resolve2 m1 m2 p.
  Proof.
    intros H. unfold lookup, resolve2.
    pose proof (chain_total_from m2 p m1 None H) as C. cbn in C.
    rewrite C; [|intros; discriminate]. unfold lookup, retarget.
    destruct (lookup_from None m1 p); reflexivity.
  Qed.

  (** In general the tokens that do not resolve are dropped: the chained map is the chained map of
      the resolving tokens, for which the previous theorem applies. *)
  Theorem chain_drops_unresolved (m1 : list (@token pos)) (m2 : list (@token B)) :
    chain m1 m2 = chain (filter (resolves m2) m1) m2.
  Proof.
    induction m1 as [|t m1 IH]; [reflexivity|].
    cbn [chain flat_map filter]. fold (chain m1 m2). unfold resolves at 1.
    destruct (lookup m2 (snd t)) as [o|] eqn:E.
    - cbn [chain flat_map]. rewrite E. fold (chain (filter (resolves m2) m1) m2). rewrite IH. reflexivity.
    - exact IH.
  Qed.

  Corollary chain_lookup (m1 : list (@token pos)) (m2 : list (@token B)) p :
    lookup (chain m1 m2) p = resolve2 (filter (resolves m2) m1) m2 p.
  Proof.
    rewrite chain_drops_unresolved. apply chain_is_composition.
    intros t Ht. apply filter_In in Ht. exact (proj2 Ht).
  Qed.

  (** Generated positions are untouched and stay sorted. *)
  Lemma chain_keys (m1 : list (@token pos)) (m2 : list (@token B)) :
    forall t, In t (chain m1 m2) -> exists t1, In t1 m1 /\ fst t = fst t1 /\ retarget m2 t1 = Some t.
  Proof.
    intros t Ht. unfold chain in Ht. apply in_flat_map in Ht. destruct Ht as (t1 & H1 & H2).
    exists t1. unfold retarget. destruct (lookup m2 (snd t1)) as [o|]; [|destruct H2].
    destruct H2 as [<-|[]]. auto.
  Qed.
End ChainFacts.

(** ** Original maps with sourceless segments *)
Section ChainOptFacts.
  Context {B : Type}.

  Definition resolves_src (m2 : list (@token (option B))) (t : @token pos) : bool :=
    match lookup m2 (snd t) with Some (_, Some _) => true | _ => false end.

  Definition unwrap_tok (o : option (@token (option B))) : option (@token B) :=
    match o with Some (k, Some b) => Some (k, b) | _ => None end.

  Lemma keep_sourced_app (a b : list (@token (option B))) : keep_sourced (a ++ b) = keep_sourced a ++ keep_sourced b.
  Proof. unfold keep_sourced. apply flat_map_app. Qed.

  (** On a list whose tokens all carry a source, dropping the sourceless ones commutes with the lookup. *)
  Lemma lookup_keep_sourced_from (m : list (@token (option B))) p : forall acc,
    (forall t, In t m -> exists b, snd t = Some b) ->
    (forall a, acc = Some a -> exists b, snd a = Some b) ->
    lookup_from (unwrap_tok acc) (keep_sourced m) p = unwrap_tok (lookup_from acc m p).
  Proof.
    induction m as [|t m IH]; intros acc Hall Hacc; [reflexivity|].
    destruct (Hall t (or_introl eq_refl)) as (b & Hb).
    destruct t as [k pl]. cbn [snd] in Hb. subst pl.
    cbn [keep_sourced flat_map snd fst app]. fold (keep_sourced m). cbn [lookup_from fst].
    destruct (ple k p).
    - apply (IH (Some (k, Some b))); [intros t' Ht'; apply Hall; right; exact Ht' | intros a Ha; inversion Ha; subst; cbn [snd]; eauto].
    - apply IH; [intros t' Ht'; apply Hall; right; exact Ht' | exact Hacc].
  Qed.

  Lemma chain_opt_drops (m1 : list (@token pos)) (m2 : list (@token (option B))) :
    chain_opt m1 m2 = chain_opt (filter (resolves_src m2) m1) m2.
  Proof.
    unfold chain_opt. induction m1 as [|t m1 IH]; [reflexivity|].
    cbn [chain flat_map filter]. fold (chain m1 m2). rewrite keep_sourced_app. unfold resolves_src at 1.
    destruct (lookup m2 (snd t)) as [[k [b|]]|] eqn:E.
    - cbn [chain flat_map]. rewrite E. fold (chain (filter (resolves_src m2) m1) m2).
      rewrite keep_sourced_app. rewrite IH. reflexivity.
    - cbn [keep_sourced flat_map snd app]. exact IH.
    - cbn [keep_sourced flat_map app]. exact IH.
  Qed.

  (** The chained map of an original map with sourceless segments: looking a position up in it is the
      two-step resolution over the rewrite tokens that reach a sourced original token. *)
  Theorem chain_opt_lookup (m1 : list (@token pos)) (m2 : list (@token (option B))) p :
    lookup (chain_opt m1 m2) p = unwrap_tok (resolve2 (filter (resolves_src m2) m1) m2 p).
  Proof.
    rewrite chain_opt_drops. set (m1' := filter (resolves_src m2) m1).
    assert (R : forall t, In t m1' -> resolves m2 t = true).
    { intros t Ht. apply filter_In in Ht. destruct Ht as [_ Ht]. unfold resolves_src in Ht. unfold resolves.
      destruct (lookup m2 (snd t)); [reflexivity | discriminate]. }
    rewrite <- (chain_is_composition m1' m2 p R).
    unfold chain_opt, lookup.
    apply (lookup_keep_sourced_from (chain m1' m2) p None).
    - intros t Ht. apply chain_keys in Ht. destruct Ht as (t1 & H1 & _ & H2).
      apply filter_In in H1. destruct H1 as [_ H1]. unfold resolves_src in H1. unfold retarget in H2.
      destruct (lookup m2 (snd t1)) as [[k [b|]]|]; try discriminate. inversion H2; subst. cbn. eauto.
    - intros a Ha. discriminate.
  Qed.

  (** Nothing is invented: every token of the chained map is a rewrite token retargeted to the sourced
      original token its position resolves to. *)
  Theorem chain_opt_keys (m1 : list (@token pos)) (m2 : list (@token (option B))) :
    forall k b, In (k, b) (chain_opt m1 m2) ->
      exists t1, In t1 m1 /\ k = fst t1 /\ retarget m2 t1 = Some (k, Some b).
  Proof.
    intros k b H. unfold chain_opt, keep_sourced in H. apply in_flat_map in H. destruct H as (t & Ht & H).
    destruct t as [k' [b'|]]; cbn [snd fst] in H; [|destruct H]. destruct H as [H|[]]. inversion H; subst.
    apply chain_keys in Ht. destruct Ht as (t1 & H1 & H2 & H3). exists t1. cbn [fst] in H2. subst. auto.
  Qed.
End ChainOptFacts.

(** ** VLQ round trip *)
Lemma undigits_digits : forall fuel n rest,
  (n < 2 ^ N.of_nat fuel)%N -> undigits (digits fuel n ++ rest) = Some (n, rest).
Proof.
  induction fuel as [|f IH]; intros n rest H.
  - simpl in H. assert (n = 0%N) by lia. subst n. reflexivity.
  - cbn [digits]. destruct (N.ltb n 32) eqn:E.
    + cbn [app undigits]. rewrite E. reflexivity.
    + apply N.ltb_ge in E. cbn [app undigits].
      assert (D : N.ltb (n mod 32 + 32) 32 = false) by (apply N.ltb_ge; apply N.le_add_l).
      rewrite D. rewrite IH.
      * f_equal. f_equal. pose proof (N.div_mod n 32 ltac:(lia)) as DM.
        generalize dependent (n / 32)%N. generalize dependent (n mod 32)%N. intros. lia.
      * rewrite Nat2N.inj_succ, N.pow_succ_r' in H.
        apply N.div_lt_upper_bound; [lia|].
        lia.
Qed.

Lemma size_nat_bound n : (n < 2 ^ N.of_nat (N.size_nat n))%N.
Proof.
  destruct n as [|p]; [reflexivity|]. simpl.
  induction p as [p IH|p IH|]; simpl N.size_nat; rewrite ?Nat2N.inj_succ, ?N.pow_succ_r'; try lia.
  - cbn [Pos.size_nat]. rewrite Nat2N.inj_succ, N.pow_succ_r'. lia.
  - cbn [Pos.size_nat]. rewrite Nat2N.inj_succ, N.pow_succ_r'. lia.
  - reflexivity.
Qed.

Lemma div2_double_plus k : N.div2 (2 * k) = k /\ N.div2 (N.succ (2 * k)) = k.
Proof. destruct k as [|p]; simpl; auto. Qed.

Lemma unzigzag_zigzag z : unzigzag (zigzag z) = z.
Proof.
  unfold zigzag, unzigzag. destruct (Z.ltb z 0) eqn:E.
  - apply Z.ltb_lt in E. rewrite N.odd_succ, N.even_mul. cbn [N.even orb].
    rewrite (proj2 (div2_double_plus _)). rewrite Z2N.id by lia. lia.
  - apply Z.ltb_ge in E. rewrite N.odd_mul. cbn [N.odd andb].
    rewrite (proj1 (div2_double_plus _)). rewrite Z2N.id by lia. reflexivity.
Qed.

(** Decoding the digits of an encoded value gives the value back and leaves the rest untouched. *)
Theorem vlq_roundtrip z rest : vlq_decode_digits (vlq_digits z ++ rest) = Some (z, rest).
Proof.
  unfold vlq_decode_digits, vlq_digits. rewrite undigits_digits by apply size_nat_bound.
  rewrite unzigzag_zigzag. reflexivity.
Qed.

(** A whole segment. *)
Theorem vlq_segment_roundtrip : forall zs,
  vlq_all (S (length (flat_map vlq_digits zs))) (flat_map vlq_digits zs) = Some zs.
Proof.
  assert (G : forall zs fuel, length (flat_map vlq_digits zs) < fuel ->
              vlq_all fuel (flat_map vlq_digits zs) = Some zs).
  { induction zs as [|z zs IH]; intros fuel Hf.
    - destruct fuel; [lia | reflexivity].
    - destruct fuel as [|f]; [lia|]. cbn [flat_map vlq_all].
      assert (NE : vlq_digits z <> []).
      { unfold vlq_digits. destruct (N.size_nat (zigzag z)); simpl; [discriminate|].
        destruct (N.ltb (zigzag z) 32); discriminate. }
      destruct (vlq_digits z ++ flat_map vlq_digits zs) eqn:E.
      + apply app_eq_nil in E. destruct E; contradiction.
      + rewrite <- E. rewrite vlq_roundtrip. rewrite IH; [reflexivity|].
        cbn [flat_map] in Hf. rewrite app_length in Hf.
        destruct (vlq_digits z); [contradiction|]. simpl in Hf. lia. }
  intros zs. apply G. lia.
Qed.
