(** * Executable model of the repository's own transformation logic.

    Mirrors, function by function, src/visitor/{block_transform_visitor, operation_transform_visitor,
    ident_provider, visitor_with_context, visitor_util}.rs and src/transform/*.rs on the rose-tree
    form of swc's AST ([Ast.v]).  It is faithful to the code *including its defects*; no proofs here.

    Recursion is on explicit fuel (the optional-chain arm re-visits a freshly built tree, so the
    traversal is not structural); out-of-fuel is the distinguished outcome [None], excluded by
    the statements of the theorems and never observed by the correspondence check. *)
From Coq Require Import String List NArith Bool Ascii DecimalString.
From IastRw Require Import Ast Generated Config.
Import ListNotations.
Local Open Scope string_scope.

(** ** Status and telemetry *)
Inductive status := Modified | NotModified | Cancelled.

Definition status_eqb (a b : status) : bool :=
  match a, b with
  | Modified, Modified | NotModified, NotModified | Cancelled, Cancelled => true
  | _, _ => false
  end.

(** [TransformStatus] + [IastTelemetry]: the count and (debug only) the tags, newest first. *)
Record tstate := {
  t_status : status;
  t_msg : option string;
  t_count : N;
  t_tags : list string
}.

Definition t_init : tstate :=
  {| t_status := NotModified; t_msg := None; t_count := 0; t_tags := [] |}.

(** [IastTelemetry::inc] for the telemetry kind selected by the verbosity. *)
Definition telemetry_inc (v : verbosity) (tag : option string) (t : tstate) : tstate :=
  match v with
  | VOff => t
  | VDebug =>
      {| t_status := t_status t; t_msg := t_msg t; t_count := N.succ (t_count t);
         t_tags := match tag with Some g => g :: t_tags t | None => t_tags t end |}
  | _ =>
      {| t_status := t_status t; t_msg := t_msg t; t_count := N.succ (t_count t);
         t_tags := t_tags t |}
  end.

(** [OperationTransformVisitor::update_status]. *)
Definition update_status (v : verbosity) (st : status) (tag : option string) (t : tstate) : tstate :=
  if status_eqb (t_status t) Cancelled then t
  else
    let t1 := if status_eqb st Modified then telemetry_inc v tag t else t in
    if status_eqb st NotModified then t1
    else {| t_status := st; t_msg := t_msg t1; t_count := t_count t1; t_tags := t_tags t1 |}.

(** ** DefaultIdentProvider *)
Record pstate := {
  p_ctr : N;                 (* ident_counter *)
  p_idents : list string;    (* idents: names in first-allocation order, no duplicates *)
  p_dup : bool               (* variable_decl contains a non-dummy-span identifier with the prefix *)
}.

Definition p_init : pstate := {| p_ctr := 0; p_idents := []; p_dup := false |}.

Definition N_to_string (n : N) : string := NilEmpty.string_of_uint (N.to_uint n).

Definition temp_name (c : config) (n : N) : string := var_prefix c ++ N_to_string n.

Definition register_ident (name : string) (p : pstate) : pstate :=
  if existsb (String.eqb name) (p_idents p) then p
  else {| p_ctr := p_ctr p; p_idents := p_idents p ++ [name]; p_dup := p_dup p |}.

Definition next_ident (p : pstate) : N * pstate :=
  (p_ctr p, {| p_ctr := N.succ (p_ctr p); p_idents := p_idents p; p_dup := p_dup p |}).

Definition reset_counter (p : pstate) : pstate :=
  {| p_ctr := 0; p_idents := p_idents p; p_dup := p_dup p |}.

(** [register_variable] followed by the only question ever asked of the set. *)
Definition register_variable (c : config) (id : node) (p : pstate) : pstate :=
  match ident_sym id with
  | Some sym =>
      if negb (is_dummy (span_of id)) && String.prefix (var_prefix c) sym
      then {| p_ctr := p_ctr p; p_idents := p_idents p; p_dup := true |}
      else p
  | None => p
  end.

Inductive ident_kind := IKExpr | IKSpread.

(** [create_assign_right_operand_expression] *)
(** [get_dd_paren_span]: an injected parenthesis only covers the first byte of the operation it encloses (the
    code generator maps a closing parenthesis to [hi - 1], which must be a character boundary). *)
Definition paren_span (s : sp) : sp := if is_dummy s then s else (fst s, (fst s + 1)%N).

Definition assign_right (e : node) (ik : ident_kind) : node :=
  match ik with
  | IKSpread => mk_array DUMMY [mk_spread_arg e]
  | IKExpr =>
      (* a comma expression is the right-hand side of an assignment only inside parentheses *)
      if is_kind KSeq e then mk_paren DUMMY e else e
  end.

(** [get_expr_or_spread] *)
Definition expr_or_spread (e : node) (ik : ident_kind) : node :=
  match ik with IKSpread => mk_spread_arg e | IKExpr => mk_arg e end.

(** The accumulators every transform threads: assignations and hook arguments (in order). *)
Record acc := { a_assigns : list node; a_args : list node }.
Definition acc0 : acc := {| a_assigns := []; a_args := [] |}.
Definition push_assign (x : node) (a : acc) : acc :=
  {| a_assigns := a_assigns a ++ [x]; a_args := a_args a |}.
Definition push_arg (x : node) (a : acc) : acc :=
  {| a_assigns := a_assigns a; a_args := a_args a ++ [x] |}.

(** [get_temporal_ident_used_in_assignation]: [None] for literals, else allocate, register,
    push [tmp = operand] and return the temporary. *)
Definition get_temporal (c : config) (operand : node) (span : sp) (ik : ident_kind)
           (a : acc) (p : pstate) : option node * acc * pstate :=
  if is_lit operand then (None, a, p)
  else
    let '(n, p1) := next_ident p in
    let name := temp_name c n in
    let asg := mk_assign span "=" (mk_binding_ident DUMMY name) (assign_right operand ik) in
    (Some (mk_ident DUMMY name), push_assign asg a, register_ident name p1).

(** [get_ident_used_in_assignation]: additionally push the temporary (or the literal) as argument. *)
Definition get_ident (c : config) (operand : node) (span : sp) (ik : ident_kind)
           (a : acc) (p : pstate) : option node * acc * pstate :=
  let '(id, a1, p1) := get_temporal c operand span ik a p in
  let id_expr := match id with Some i => i | None => operand end in
  (id, push_arg (expr_or_spread id_expr ik) a1, p1).

(** ** operand_handler.rs *)
Inductive ident_mode := Replace | Keep.

Definition get_ident_mode (operand : node) : ident_mode :=
  if is_ident operand || is_lit operand then Keep else Replace.

Definition replace_default (c : config) (e : node) (span : sp) (ik : ident_kind)
           (a : acc) (p : pstate) : node * acc * pstate :=
  let '(id, a1, p1) := get_ident c e span ik a p in
  (match id with Some i => i | None => e end, a1, p1).

Definition bin_op (n : node) : option string :=
  match n with
  | Node (K KBin _ _) (Node (Str op) [] :: _) => Some op
  | _ => None
  end.

Definition is_op (view : node -> option string) (op : string) (n : node) : bool :=
  match view n with Some o => String.eqb o op | None => false end.

(** [replace_expressions_in_expr] with [ExpandArrays::No]. *)
Definition replace_expr_noexpand (c : config) (e : node) (im : ident_mode) (span : sp)
           (ik : ident_kind) (a : acc) (p : pstate) : node * acc * pstate :=
  if is_lit e then (e, push_arg (expr_or_spread e ik) a, p)
  else if is_ident e then
    match im with
    | Replace => replace_default c e span ik a p
    | Keep => (e, push_arg (expr_or_spread e ik) a, p)
    end
  else
    match bin_op e with
    | Some op => if String.eqb op "+" then (e, a, p) else replace_default c e span ik a p
    | None => replace_default c e span ik a p
    end.

(** [replace_expressions_in_expr_or_spread] with [ExpandArrays::No]. *)
Definition replace_arg_noexpand (c : config) (arg : node) (im : ident_mode) (span : sp)
           (a : acc) (p : pstate) : node * acc * pstate :=
  match arg with
  | Node Obj [spr; e] =>
      let ik := if arg_is_spread arg then IKSpread else IKExpr in
      let '(e', a1, p1) := replace_expr_noexpand c e im span ik a p in
      (Node Obj [spr; e'], a1, p1)
  | _ => (arg, a, p)
  end.

(** Array elements under [ExpandArrays::Yes]: holes are skipped. *)
Fixpoint replace_elems (c : config) (elems : list node) (im : ident_mode) (span : sp)
         (a : acc) (p : pstate) : list node * acc * pstate :=
  match elems with
  | [] => ([], a, p)
  | el :: rest =>
      let '(el', a1, p1) :=
        match el with
        | Node Nul _ => (el, a, p)
        | _ => replace_arg_noexpand c el im span a p
        end in
      let '(rest', a2, p2) := replace_elems c rest im span a1 p1 in
      (el' :: rest', a2, p2)
  end.

(** [replace_expressions_in_expr] in full. *)
Definition replace_expr (c : config) (e : node) (im : ident_mode) (span : sp) (ik : ident_kind)
           (expand : bool) (a : acc) (p : pstate) : node * acc * pstate :=
  if is_lit e || is_ident e then replace_expr_noexpand c e im span ik a p
  else
    match bin_op e with
    | Some _ => replace_expr_noexpand c e im span ik a p
    | None =>
        match e with
        | Node (K KArray lo hi) [Node Lst elems] =>
            if expand then
              let '(elems', a1, p1) := replace_elems c elems im span a p in
              (Node (K KArray lo hi) [Node Lst elems'], a1, p1)
            else replace_default c e span ik a p
        | _ => replace_default c e span ik a p
        end
    end.

Definition replace_arg (c : config) (arg : node) (im : ident_mode) (span : sp) (expand : bool)
           (a : acc) (p : pstate) : node * acc * pstate :=
  match arg with
  | Node Obj [spr; e] =>
      let ik := if arg_is_spread arg then IKSpread else IKExpr in
      let '(e', a1, p1) := replace_expr c e im span ik expand a p in
      (Node Obj [spr; e'], a1, p1)
  | _ => (arg, a, p)
  end.

Fixpoint replace_args (c : config) (args : list node) (span : sp) (expand : bool)
         (a : acc) (p : pstate) : list node * acc * pstate :=
  match args with
  | [] => ([], a, p)
  | x :: rest =>
      let '(x', a1, p1) := replace_arg c x Replace span expand a p in
      let '(rest', a2, p2) := replace_args c rest span expand a1 p1 in
      (x' :: rest', a2, p2)
  end.

(** ** visitor_util.rs *)
Definition dd_callee (method_name : string) (span : sp) : node :=
  mk_member span (mk_ident span gen_DD_GLOBAL_NAMESPACE) (mk_ident_name span method_name).

Definition dd_call (e : node) (args : list node) (method_name : string) (span : sp) : node :=
  mk_call span (dd_callee method_name span) (mk_arg e :: args).

Definition dd_paren (e : node) (a : acc) (method_name : string) (span : sp) : node :=
  let call := dd_call e (a_args a) method_name span in
  match a_assigns a with
  | [] => call
  | asg => mk_paren (paren_span span) (mk_seq span (asg ++ [call]))
  end.

(** ** binary_add_transform.rs *)
Definition arg_is_nonlit (arg : node) : bool :=
  match arg_expr arg with Some e => negb (is_lit e) | None => true end.

(** [to_dd_binary_expr] on a [BinaryExpression] node; [None] = not modified. *)
Definition binary_transform (c : config) (e : node) (p : pstate) : option node * pstate :=
  match e with
  | Node (K KBin lo hi) [opn; l; r] =>
      let span := (lo, hi) in
      let '(l', a1, p1) := replace_expr c l (get_ident_mode r) span IKExpr false acc0 p in
      let '(r', a2, p2) := replace_expr c r (get_ident_mode l') span IKExpr false a1 p1 in
      if existsb arg_is_nonlit (a_args a2)
      then (Some (dd_paren (Node (K KBin lo hi) [opn; l'; r']) a2 (plus_name c) span), p2)
      else (None, p2)
  | _ => (None, p)
  end.

(** ** assign_add_transform.rs *)
(** [From<SimpleAssignTarget> for Box<Expr>]: a binding identifier loses its type annotation. *)
Definition simple_target_to_expr (t : node) : node :=
  match t with
  | Node (K KIdent lo hi) [cx; sym; opt; _] => Node (K KIdent lo hi) [cx; sym; opt]
  | _ => t
  end.

Definition is_pat_target (t : node) : bool :=
  is_kind KArrayPat t || is_kind KObjectPat t || is_kind (KOther "Invalid") t.

(** [hoist_key] / [hoist_target] / [hoist_super_target] / [hoist_simple_target]: whatever in a member
    target is more than an identifier is evaluated once into a temporary (the target is mentioned
    twice by the rewritten assignment); of the parentheses around a target one pair is kept
    ([(let[k]) += x] must not come out as the declaration [let[k] = ...]). *)
Definition hoist_key (c : config) (prop : node) (span : sp) (a : acc) (p : pstate) : node * acc * pstate :=
  match prop with
  | Node (K KComputed clo chi) [e] =>
      if is_ident e || is_lit e then (prop, a, p)
      else
        let '(id, a2, p2) := get_temporal c e span IKExpr a p in
        (Node (K KComputed clo chi) [match id with Some i => i | None => e end], a2, p2)
  | _ => (prop, a, p)
  end.

(** [a[f()] += x] reads [a] before it calls [f]: when the key goes into a temporary, the object goes first. *)
Definition key_hoisted (prop : node) : bool :=
  match prop with
  | Node (K KComputed _ _) [e] => negb (is_ident e || is_lit e)
  | _ => false
  end.

Definition hoist_member (c : config) (t : node) (span : sp) (a : acc) (p : pstate) : option (node * acc * pstate) :=
  match t with
  | Node (K KMember lo hi) [obj; prop] =>
      let '(obj', a1, p1) :=
        if (is_ident obj || is_kind KThis obj) && negb (key_hoisted prop) then (obj, a, p)
        else
          let '(id, a1, p1) := get_temporal c obj span IKExpr a p in
          (match id with Some i => i | None => obj end, a1, p1) in
      let '(prop', a2, p2) := hoist_key c prop span a1 p1 in
      Some (Node (K KMember lo hi) [obj'; prop'], a2, p2)
  | Node (K KSuperProp lo hi) [obj; prop] =>
      let '(prop', a2, p2) := hoist_key c prop span a p in
      Some (Node (K KSuperProp lo hi) [obj; prop'], a2, p2)
  | _ => None
  end.

Fixpoint peel_parens (n : node) : node :=
  match n with
  | Node (K KParen _ _) [e] => peel_parens e
  | _ => n
  end.

Definition hoist_target (c : config) (lhs : node) (span : sp) (a : acc) (p : pstate) : node * acc * pstate :=
  let inner := if is_kind KParen lhs then peel_parens lhs else lhs in
  match hoist_member c inner span a p with
  | Some (t, a', p') => (if is_kind KParen lhs then mk_paren (span_of lhs) t else t, a', p')
  | None => (lhs, a, p)
  end.

Definition assign_transform (c : config) (e : node) (p : pstate) : option node * pstate :=
  match e with
  | Node (K KAssign lo hi) [_; lhs; rhs] =>
      if is_pat_target lhs then (None, p)   (* unreachable from parsed JS: `[a] += x` is a syntax error *)
      else
        let span := (lo, hi) in
        let '(lhs', hoisted, p0) := hoist_target c lhs span acc0 p in
        (* a sum that is still a sum keeps its grouping: the printer does not parenthesise a right operand *)
        let right := if is_op bin_op "+" rhs then mk_paren (paren_span (span_of rhs)) rhs else rhs in
        let binary := mk_bin span "+" (simple_target_to_expr lhs') right in
        match binary_transform c binary p0 with
        | (Some e', p1) =>
            let new_assign := mk_assign span "=" lhs' e' in
            (Some (match a_assigns hoisted with
                   | [] => new_assign
                   | hs => mk_paren (paren_span span) (mk_seq span (hs ++ [new_assign]))
                   end), p1)
        | (None, p1) => (None, p1)
        end
  | _ => (None, p)
  end.

(** ** template_transform.rs *)
Fixpoint tpl_replace (c : config) (es : list node) (a : acc) (p : pstate)
  : list node * acc * pstate :=
  match es with
  | [] => ([], a, p)
  | e :: rest =>
      let '(e', a1, p1) := replace_expr c e Replace (span_of e) IKExpr false a p in
      let '(rest', a2, p2) := tpl_replace c rest a1 p1 in
      (e' :: rest', a2, p2)
  end.

Definition template_transform (c : config) (e : node) (p : pstate) : option node * pstate :=
  match e with
  | Node (K KTpl lo hi) [Node Lst es; quasis] =>
      let '(es', a, p1) := tpl_replace c es acc0 p in
      (Some (dd_paren (Node (K KTpl lo hi) [Node Lst es'; quasis]) a (tpl_name c) (lo, hi)), p1)
  | _ => (None, p)
  end.

(** ** arrow_transform.rs : an expression body becomes [{ return e }] with dummy spans. *)
Definition arrow_transform (e : node) : node :=
  match e with
  | Node (K KArrow lo hi) [cx; params; body; asy; gen; tp; rt] =>
      if is_kind KBlock body then e
      else Node (K KArrow lo hi)
                [cx; params; mk_block DUMMY [mk_return DUMMY body]; asy; gen; tp; rt]
  | _ => e
  end.

(** ** function_prototype_transform.rs *)
Definition is_call_or_apply (name : string) : bool :=
  String.eqb name gen_CALL || String.eqb name gen_APPLY.

Definition member_parts (m : node) : option (node * node) :=
  match m with
  | Node (K KMember _ _) [obj; prop] => Some (obj, prop)
  | _ => None
  end.

Definition member_prop_is_prototype (m : node) : bool :=
  match member_parts m with
  | Some (_, prop) =>
      match ident_name_sym prop with Some s => String.eqb s gen_PROTOTYPE | None => false end
  | None => false
  end.

(** [get_prototype_member_path]: the first part (name and span of the innermost-called method)
    is all the caller uses; the path test succeeds iff the outermost property is an identifier. *)
Definition prototype_method (m : node) : option (string * sp) :=
  match member_parts m with
  | Some (_, prop) =>
      match ident_name_sym prop with Some s => Some (s, span_of prop) | None => None end
  | None => None
  end.

Definition is_undefined_or_null (e : node) : bool :=
  match ident_sym e with
  | Some s => String.eqb s "undefined" || String.eqb s "null"
  | None => false
  end.

Definition arg_lit_or_undef (arg : node) : bool :=
  match arg_expr arg with
  | Some e => is_lit e || is_undefined_or_null e
  | None => false
  end.

Definition all_args_are_literal (args : list node) : bool := forallb arg_lit_or_undef args.

(** [invalid_args] *)
Definition invalid_args (name : string) (args : list node) : bool :=
  if negb (String.eqb name "apply") then false
  else
    match args with
    | this :: arr :: _ =>
        match arg_expr arr with
        | Some (Node (K KArray _ _) [Node Lst elems]) =>
            (match arg_expr this with Some t => is_lit t | None => false end)
            && forallb (fun el => match el with Node Nul _ => false | _ => arg_lit_or_undef el end)
                       (skipn 1 elems)
        | _ => if arg_is_spread arr then false else true
        end
    | _ => true
    end.

Definition call_parts (e : node) : option (node * node * list node * node) :=
  match e with
  | Node (K KCall _ _) [cx; callee; Node Lst args; targs] => Some (cx, callee, args, targs)
  | _ => None
  end.

Inductive proto_parts :=
| PPNone
| PPSpreadThis (method : string) (mspan : sp)
| PPThis (this_expr : node) (method : string) (mspan : sp) (new_call : node).

(** [get_expression_parts_from_call_or_apply] *)
Definition prototype_parts (c : config) (call member : node) (name : string) : proto_parts :=
  if negb (is_call_or_apply name) then PPNone
  else
    match prototype_method member, call_parts call with
    | Some (method, mspan), Some (_, _, args, _) =>
        match args with
        | [] => PPNone
        | this :: rest =>
            if arg_is_spread this then PPSpreadThis method mspan
            else if invalid_args name args then PPNone
            else
              match arg_expr this with
              | Some this_expr =>
                  if is_lit this_expr
                     && (negb (allows_literal_callers c method) || all_args_are_literal rest)
                  then PPNone
                  else
                    let cspan := span_of call in
                    let new_callee := mk_member cspan this_expr (mk_ident_name mspan method) in
                    PPThis this_expr method mspan (mk_call cspan new_callee rest)
              | None => PPNone
              end
        end
    | _, _ => PPNone
    end.

(** ** call_expr_transform.rs *)
(** [replace_call_callee_and_args] *)
Definition replace_callee_and_args (c : config) (call : node) (ident_callee : option node)
           (call_or_apply : option string) (a : acc) (p : pstate) : node * acc * pstate :=
  match call with
  | Node (K KCall lo hi) [cx; callee; Node Lst args; targs] =>
      let span := (lo, hi) in
      let prop_name := match call_or_apply with Some s => s | None => "call" end in
      let callee' :=
        match ident_callee with
        | Some id => mk_member span id (mk_ident_name span prop_name)
        | None => callee
        end in
      let '(args', a1, p1) := replace_args c args span (String.eqb prop_name "apply") a p in
      (Node (K KCall lo hi) [cx; callee'; Node Lst args'; targs], a1, p1)
  | _ => (call, a, p)
  end.

Definition insert_this (call this : node) : node :=
  match call with
  | Node (K KCall lo hi) [cx; callee; Node Lst args; targs] =>
      Node (K KCall lo hi) [cx; callee; Node Lst (mk_arg this :: args); targs]
  | _ => call
  end.

(** [replace_call_expr_if_csi_method_with_member] *)
Definition replace_with_member (c : config) (recv : node) (method : string) (mspan : sp)
           (call : node) (member_opt : option node) (call_or_apply : option string)
           (p : pstate) : option (node * string) * pstate :=
  match csi_get c method with
  | None => (None, p)
  | Some csi =>
      let span := span_of call in
      let '(id_opt, a1, p1) := get_temporal c recv span IKExpr acc0 p in
      let ident_replacement := match id_opt with Some i => i | None => recv end in
      let member :=
        match member_opt with
        | Some m => m
        | None => mk_member span ident_replacement (mk_ident_name mspan method)
        end in
      let '(callee_opt, a2, p2) := get_ident c member span IKExpr a1 p1 in
      let a3 := push_arg (mk_arg ident_replacement) a2 in
      let callee_expr := match callee_opt with Some i => i | None => recv end in
      let '(call', a4, p4) :=
        replace_callee_and_args c call (Some callee_expr) call_or_apply a3 p2 in
      let call'' := insert_this call' ident_replacement in
      (Some (dd_paren call'' a4 (m_dst csi) span, method), p4)
  end.

(** [replace_call_spread_if_csi_method_with_member] *)
Definition replace_spread_with_member (c : config) (method : string) (call member : node)
           (call_or_apply : string) (p : pstate) : option (node * string) * pstate :=
  match csi_get c method with
  | None => (None, p)
  | Some csi =>
      let span := span_of call in
      let '(callee_opt, a1, p1) := get_ident c member span IKExpr acc0 p in
      match callee_opt with
      | None => (None, p1)
      | Some callee =>
          let '(call', a2, p2) :=
            replace_callee_and_args c call (Some callee) (Some call_or_apply) a1 p1 in
          (Some (dd_paren call' a2 (m_dst csi) span, method), p2)
      end
  end.

(** [replace_call_expr_if_csi_method_without_callee] *)
Definition replace_without_callee (c : config) (callee_ident call : node) (p : pstate)
  : option (node * string) * pstate :=
  match ident_sym callee_ident with
  | None => (None, p)
  | Some name =>
      match csi_get c name with
      | Some csi =>
          if m_awc csi then
            let span := span_of call in
            let a0 := push_arg (mk_arg (mk_ident span "undefined"))
                               (push_arg (mk_arg callee_ident) acc0) in
            let '(call', a1, p1) := replace_callee_and_args c call None None a0 p in
            (Some (dd_paren call' a1 (m_dst csi) span, name), p1)
          else (None, p)
      | None => (None, p)
      end
  end.

(** [replace_prototype_call_or_apply] *)
Definition replace_prototype (c : config) (call member_obj : node) (name : string) (p : pstate)
  : option (node * string) * pstate :=
  match prototype_parts c call member_obj name with
  | PPNone => (None, p)
  | PPSpreadThis method _ => replace_spread_with_member c method call member_obj name p
  | PPThis this_expr method mspan new_call =>
      replace_with_member c this_expr method mspan new_call (Some member_obj) (Some name) p
  end.

Definition receiver_kind_ok (obj : node) : bool :=
  is_ident obj || is_kind KCall obj || is_kind KParen obj || is_kind KArray obj.

(** [CallExprTransform::to_dd_call_expr]; the result carries the telemetry tag. *)
Definition call_transform (c : config) (call : node) (p : pstate) : option (node * string) * pstate :=
  match call_parts call with
  | Some (_, callee, _, _) =>
      match member_parts callee with
      | Some (obj, prop) =>
          match ident_name_sym prop with
          | Some name =>
              if is_lit obj then
                if allows_literal_callers c name
                then replace_with_member c obj name (span_of prop) call None None p
                else (None, p)
              else if receiver_kind_ok obj then
                replace_with_member c obj name (span_of prop) call None None p
              else if is_kind KMember obj then
                if is_call_or_apply name then replace_prototype c call obj name p
                else if negb (member_prop_is_prototype obj)
                then replace_with_member c obj name (span_of prop) call None None p
                else (None, p)
              else (None, p)
          | None => (None, p)
          end
      | None =>
          if is_ident callee then replace_without_callee c callee call p else (None, p)
      end
  | None => (None, p)
  end.

(** ** opt_chain_transform.rs *)
Record ocstate := {
  oc_assigns : list node;
  oc_new_ident : option node;
  oc_found : bool;
  oc_p : pstate
}.

Definition oc_get_ident (c : config) (operand : node) (s : ocstate) : option node * ocstate :=
  let '(id, a, p) := get_ident c operand DUMMY IKExpr
                               {| a_assigns := oc_assigns s; a_args := [] |} (oc_p s) in
  (id, {| oc_assigns := a_assigns a; oc_new_ident := oc_new_ident s;
          oc_found := oc_found s; oc_p := p |}).

Definition oc_set_new_ident (id : node) (s : ocstate) : ocstate :=
  {| oc_assigns := oc_assigns s; oc_new_ident := Some id; oc_found := oc_found s; oc_p := oc_p s |}.

Definition oc_set_found (s : ocstate) : ocstate :=
  {| oc_assigns := oc_assigns s; oc_new_ident := oc_new_ident s; oc_found := true; oc_p := oc_p s |}.

(** The callee of an optional call whose receiver must stay the [this] of the call: a member access, also when it
    is itself optional ([obj?.m?.(x)]) or parenthesised ([(obj.m)?.(x)]); the flag says whether the access is optional. *)
Definition oc_callee_member (callee : node) : option (node * node * bool) :=
  let inner := if is_kind KParen callee then peel_parens callee else callee in
  match member_parts inner with
  | Some (obj, prop) => Some (obj, prop, false)
  | None =>
      match inner with
      | Node (K KOptChain _ _) [Node (Bln true) []; base] =>
          match member_parts base with
          | Some (obj, prop) => Some (obj, prop, true)
          | None => None
          end
      | _ => None
      end
  end.

(** [get_call_from_base_call]; [base] is the OptCall (serialized like a CallExpression). *)
Definition oc_call_from_base (c : config) (base : node) (optional : bool) (s : ocstate)
  : option node * ocstate :=
  match base with
  | Node (K KCall _ _) [cx; callee; Node Lst args; targs] =>
      if optional then
        match oc_callee_member callee with
        | Some (obj, prop, member_optional) =>
            let '(obj_id, s1) := oc_get_ident c obj s in
            match obj_id with
            | Some oid =>
                let new_member :=
                  if member_optional then mk KOptChain DUMMY [nB true; mk_member DUMMY oid prop]
                  else mk_member DUMMY oid prop in
                let '(mem_id, s2) := oc_get_ident c new_member s1 in
                match mem_id with
                | Some mid =>
                    let callee' := mk_member DUMMY mid (mk_ident_name DUMMY "call") in
                    (Some (mk KCall DUMMY [cx; callee'; Node Lst (mk_arg oid :: args); targs]),
                     oc_set_new_ident mid s2)
                | None => (None, s2)
                end
            | None => (None, s1)
            end
        | None =>
            let '(id, s1) := oc_get_ident c callee s in
            match id with
            | Some nid =>
                match oc_assigns s1 with
                | _ :: _ =>
                    (* [super.b?.(x)]: b is found on the parent prototype and called on [this] *)
                    if is_kind KSuperProp (if is_kind KParen callee then peel_parens callee else callee)
                    then (Some (mk KCall DUMMY [cx; mk_member DUMMY nid (mk_ident_name DUMMY "call");
                                                Node Lst (mk_arg (mk KThis DUMMY []) :: args); targs]),
                          oc_set_new_ident nid s1)
                    else
                    (Some (mk KCall DUMMY [cx; nid; Node Lst args; targs]), oc_set_new_ident nid s1)
                | [] => (None, s1)
                end
            | None => (None, s1)
            end
        end
      else (Some base, s)       (* a link that is not optional: the call as it was, position included *)
  | _ => (None, s)
  end.

(** [get_member_from_base_member] *)
Definition oc_member_from_base (c : config) (base : node) (optional : bool) (s : ocstate)
  : option node * ocstate :=
  match base with
  | Node (K KMember _ _) [obj; prop] =>
      if optional then
        let '(id, s1) := oc_get_ident c obj s in
        match id with
        | Some nid => (Some (mk_member DUMMY nid prop), oc_set_new_ident nid s1)
        | None => (None, s1)
        end
      else (Some base, s)
  | _ => (None, s)
  end.

Definition optchain_parts (e : node) : option (bool * node) :=
  match e with
  | Node (K KOptChain _ _) [Node (Bln optional) []; base] => Some (optional, base)
  | _ => None
  end.

(** The shape that sets [found]: a non-optional link whose base is a call whose callee is an
    optional-chain expression over a member with a configured identifier property. *)
Definition oc_is_target (c : config) (e : node) : bool :=
  match optchain_parts e with
  | Some (false, base) =>
      match base with
      | Node (K KCall _ _) [_; callee; _; _] =>
          match optchain_parts callee with
          | Some (_, inner_base) =>
              match member_parts inner_base with
              | Some (_, prop) =>
                  match ident_name_sym prop with
                  | Some name => match csi_get c name with Some _ => true | None => false end
                  | None => false
                  end
              | None => false
              end
          | None => false
          end
      | _ => false
      end
  | _ => false
  end.

Section MapState.
  Context {St : Type}.
  Variable f : node -> St -> option (node * St).
  Fixpoint map_st (l : list node) (s : St) : option (list node * St) :=
    match l with
    | [] => Some ([], s)
    | x :: rest =>
        match f x s with
        | Some (x', s1) =>
            match map_st rest s1 with
            | Some (rest', s2) => Some (x' :: rest', s2)
            | None => None
            end
        | None => None
        end
    end.
End MapState.

(** [OptChainVisitor]: [visit_mut_expr] overridden for optional chains; only the spine of the
    chain (callee / object links) is walked ([visit_mut_spine]). *)
Fixpoint oc_visit (c : config) (fuel : nat) (n : node) (s : ocstate) {struct fuel}
  : option (node * ocstate) :=
  match fuel with
  | 0 => None
  | Datatypes.S f =>
      let spine n s :=
        match n with
        | Node (K KOptChain lo hi) [opt; Node (K KCall clo chi) [cx; callee; args; targs]] =>
            match oc_visit c f callee s with
            | Some (callee', s') =>
                Some (Node (K KOptChain lo hi) [opt; Node (K KCall clo chi) [cx; callee'; args; targs]], s')
            | None => None
            end
        | Node (K KOptChain lo hi) [opt; Node (K KMember mlo mhi) [obj; prop]] =>
            match oc_visit c f obj s with
            | Some (obj', s') =>
                Some (Node (K KOptChain lo hi) [opt; Node (K KMember mlo mhi) [obj'; prop]], s')
            | None => None
            end
        | Node (K KCall lo hi) [cx; callee; args; targs] =>
            if is_kind KSuper callee || is_kind KImport callee then Some (n, s)
            else
              match oc_visit c f callee s with
              | Some (callee', s') => Some (Node (K KCall lo hi) [cx; callee'; args; targs], s')
              | None => None
              end
        | Node (K KMember lo hi) [obj; prop] =>
            match oc_visit c f obj s with
            | Some (obj', s') => Some (Node (K KMember lo hi) [obj'; prop], s')
            | None => None
            end
        | _ => Some (n, s)
        end in
      match optchain_parts n with
      | Some (optional, base) =>
          if oc_found s then
            let '(repl, s1) :=
              if is_kind KCall base then oc_call_from_base c base optional s
              else oc_member_from_base c base optional s in
            let n1 := match repl with Some r => r | None => n end in
            if optional then Some (n1, s1) else spine n1 s1
          else if oc_is_target c n then oc_visit c f n (oc_set_found s)
          else spine n s
      | None => spine n s
      end
  end.

(** [OptChainTransform::to_dd_cond_expr]: returns the (always possibly mutated) expression, and
    whether the transformation reports Modified. *)
Definition optchain_transform (c : config) (fuel : nat) (e : node) (p : pstate)
  : option (node * bool * pstate) :=
  match oc_visit c fuel e
                 {| oc_assigns := []; oc_new_ident := None; oc_found := false; oc_p := p |} with
  | None => None
  | Some (e', s) =>
      match oc_assigns s, oc_new_ident s with
      | _ :: _, Some nid =>
          let test := mk_bin DUMMY "==" nid (mk_null DUMMY) in
          let cond := mk_cond DUMMY test (mk_ident DUMMY "undefined") e' in
          (* the guard takes the place, and the span, of the chain *)
          Some (mk_paren (paren_span (span_of e)) (mk_seq (span_of e) (oc_assigns s ++ [cond])), true, oc_p s)
      | _, _ => Some (e', false, oc_p s)
      end
  end.

(** ** OperationTransformVisitor *)
Record ostate := { o_p : pstate; o_t : tstate }.

Definition o_with_p (p : pstate) (s : ostate) : ostate := {| o_p := p; o_t := o_t s |}.
Definition o_update (c : config) (st : status) (tag : option string) (s : ostate) : ostate :=
  {| o_p := o_p s; o_t := update_status (c_verbosity c) st tag (o_t s) |}.
(** [WithCtx::drop] when the scope was opened from the root context. *)
Definition o_leave (root : bool) (s : ostate) : ostate :=
  if root then {| o_p := reset_counter (o_p s); o_t := o_t s |} else s.

Definition unary_op (n : node) : option string :=
  match n with
  | Node (K KUnary _ _) (Node (Str op) [] :: _) => Some op
  | _ => None
  end.
Definition assign_op (n : node) : option string :=
  match n with
  | Node (K KAssign _ _) (Node (Str op) [] :: _) => Some op
  | _ => None
  end.

Definition tpl_instrumentable (n : node) : bool :=
  match n with
  | Node (K KTpl _ _) [Node Lst es; _] =>
      match es with [] => false | _ => forallb (fun e => negb (is_lit e)) es end
  | _ => false
  end.

Definition callee_is_expr (call : node) : bool :=
  match call_parts call with
  | Some (_, callee, _, _) => negb (is_kind KSuper callee || is_kind KImport callee)
  | None => false
  end.

(** The arms of [visit_mut_expr] / the overridden struct visitors, as a classification of the node. *)
Inductive opclass := OBlock | OIdent | OBin | OAssign | OTpl | OCall | OOptChain | OUnary | OArrow | OLeaf | OOther.

Definition classify (n : node) : opclass :=
  match n with
  | Node (K KBlock _ _) _ => OBlock
  | Node (K KIdent _ _) _ => OIdent
  | Node (K KBin _ _) _ => OBin
  | Node (K KAssign _ _) _ => OAssign
  | Node (K KTpl _ _) _ => OTpl
  | Node (K KCall _ _) _ => OCall
  | Node (K KOptChain _ _) _ => OOptChain
  | Node (K KUnary _ _) _ => OUnary
  | Node (K KArrow _ _) _ => OArrow
  | _ => if leaf n then OLeaf else OOther     (* literals, property names, this, super: nothing to visit *)
  end.

(** Default traversal of a struct: visit every child with [rec]; two fields are not Expr positions
    although they hold expression-like nodes: TaggedTpl.tpl and OptChainExpr.base. *)
Definition default_visit_with (rec : node -> ostate -> option (node * ostate)) (n : node) (s : ostate)
  : option (node * ostate) :=
  match n with
  | Node (K KTaggedTpl lo hi) [cx; tg; tp; Node tplt tplcs] =>
      match map_st rec [cx; tg; tp] s with
      | Some ([cx'; tg'; tp'], s1) =>
          match map_st rec tplcs s1 with
          | Some (tplcs', s2) =>
              Some (Node (K KTaggedTpl lo hi) [cx'; tg'; tp'; Node tplt tplcs'], s2)
          | None => None
          end
      | _ => None
      end
  | Node (K KOptChain lo hi) [opt; Node bt bcs] =>
      match map_st rec bcs s with
      | Some (bcs', s1) => Some (Node (K KOptChain lo hi) [opt; Node bt bcs'], s1)
      | None => None
      end
  | Node t cs =>
      match map_st rec cs s with
      | Some (cs', s') => Some (Node t cs', s')
      | None => None
      end
  end.

(** `x.visit_mut_children_with(self)` on an enum value: the struct behind it is visited with its
    own (possibly overridden) method, the enum-level override is skipped. *)
Definition struct_level_with (c : config) (rec : node -> ostate -> option (node * ostate))
           (n : node) (s : ostate) : option (node * ostate) :=
  match classify n with
  | OIdent => Some (n, o_with_p (register_variable c n (o_p s)) s)
  | OBlock => Some (n, s)
  | OLeaf => Some (n, s)
  | _ => default_visit_with rec n s
  end.

(** The node's own transformation, applied after its children ([n1] has rewritten children). *)
Definition bin_step (c : config) (n1 : node) (s1 : ostate) : node * ostate :=
  if is_op bin_op "+" n1 then
    let '(r, p2) := binary_transform c n1 (o_p s1) in
    let s2 := o_with_p p2 s1 in
    match r with
    | Some e' => (e', o_update c Modified (Some gen_ADD_TAG) s2)
    | None => (n1, o_update c NotModified (Some gen_ADD_TAG) s2)
    end
  else (n1, s1).

Definition assign_step (c : config) (n1 : node) (s1 : ostate) : node * ostate :=
  if is_op assign_op "+=" n1 then
    let '(r, p2) := assign_transform c n1 (o_p s1) in
    let s2 := o_with_p p2 s1 in
    match r with
    | Some e' => (e', o_update c Modified (Some gen_ADD_ASSIGN_TAG) s2)
    | None => (n1, o_update c NotModified (Some gen_ADD_ASSIGN_TAG) s2)
    end
  else (n1, s1).

Definition tpl_step (c : config) (n1 : node) (s1 : ostate) : node * ostate :=
  let '(r, p2) := template_transform c n1 (o_p s1) in
  let s2 := o_with_p p2 s1 in
  match r with
  | Some e' => (e', o_update c Modified (Some gen_TPL_TAG) s2)
  | None => (n1, o_update c NotModified (Some gen_TPL_TAG) s2)
  end.

Definition call_step (c : config) (n1 : node) (s1 : ostate) : node * ostate :=
  if callee_is_expr n1 then
    let '(r, p2) := call_transform c n1 (o_p s1) in
    let s2 := o_with_p p2 s1 in
    match r with
    | Some (e', tag) => (e', o_update c Modified (Some tag) s2)
    | None => (n1, s2)
    end
  else (n1, s1).

Definition finish (root : bool) (r : node * ostate) : option (node * ostate) :=
  Some (fst r, o_leave root (snd r)).

Fixpoint op_visit (c : config) (fuel : nat) (root : bool) (n : node) (s : ostate) {struct fuel}
  : option (node * ostate) :=
  match fuel with
  | 0 => None
  | Datatypes.S f =>
      match classify n with
      | OBlock => Some (n, s)              (* visit_mut_block_stmt: nested blocks are skipped *)
      | OIdent => Some (n, o_with_p (register_variable c n (o_p s)) s)
      | OBin =>
          if plus_enabled c then
            match default_visit_with (op_visit c f false) n s with
            | Some (n1, s1) => finish root (bin_step c n1 s1)
            | None => None
            end
          else default_visit_with (op_visit c f root) n s
      | OAssign =>
          if plus_enabled c then
            match default_visit_with (op_visit c f false) n s with
            | Some (n1, s1) => finish root (assign_step c n1 s1)
            | None => None
            end
          else default_visit_with (op_visit c f root) n s
      | OTpl =>
          if tpl_enabled c then
            if tpl_instrumentable n then
              match default_visit_with (op_visit c f false) n s with
              | Some (n1, s1) => finish root (tpl_step c n1 s1)
              | None => None
              end
            else Some (n, s)          (* not descended at all *)
          else default_visit_with (op_visit c f root) n s
      | OCall =>
          match default_visit_with (op_visit c f false) n s with
          | Some (n1, s1) => finish root (call_step c n1 s1)
          | None => None
          end
      | OOptChain =>
          match optchain_transform c f n (o_p s) with
          | Some (n1, modified, p1) =>
              (* the guard alone does not update the status;
                 expr.visit_mut_children_with: the struct behind the (possibly new) expression *)
              match struct_level_with c (op_visit c f false) n1 (o_with_p p1 s) with
              | Some (n2, s3) => Some (n2, o_leave root s3)
              | None => None
              end
          | None => None
          end
      | OUnary =>
          if is_op unary_op "delete" n then Some (n, s)
          else default_visit_with (op_visit c f root) n s
      | OArrow => Some (arrow_transform n, s)   (* not descended *)
      | OLeaf => Some (n, s)
      | OOther => default_visit_with (op_visit c f root) n s
      end
  end.

(** ** BlockTransformVisitor *)
(** [Stmt::can_precede_directive]: an expression statement that is a bare string literal. *)
Definition can_precede_directive (stmt : node) : bool :=
  match stmt with
  | Node (K KExprStmt _ _) [Node (K KStr _ _) _] => true
  | _ => false
  end.

(** [get_variable_insertion_index]: the length of the directive prologue. *)
Fixpoint insertion_index (stmts : list node) : nat :=
  match stmts with
  | s0 :: rest => if can_precede_directive s0 then Datatypes.S (insertion_index rest) else 0
  | [] => 0
  end.

Definition insert_at {A} (i : nat) (xs : list A) (l : list A) : list A :=
  firstn i l ++ xs ++ skipn i l.

(** [insert_variable_declaration] *)
Definition insert_let (idents : list string) (span : sp) (stmts : list node) : list node :=
  match idents with
  | [] => stmts
  | _ =>
      let decls := map (fun name => mk_var_declarator span (mk_binding_ident DUMMY name)) idents in
      insert_at (insertion_index stmts) [mk_let span decls] stmts
  end.

Definition t_cancel (reason : string) (t : tstate) : tstate :=
  {| t_status := Cancelled; t_msg := Some reason; t_count := t_count t; t_tags := t_tags t |}.

Fixpoint block_visit (c : config) (fuel : nat) (n : node) (t : tstate) {struct fuel}
  : option (node * tstate) :=
  match fuel with
  | 0 => None
  | Datatypes.S f =>
      let children (n : node) (t : tstate) :=
        match n with
        | Node tg cs =>
            match map_st (block_visit c f) cs t with
            | Some (cs', t') => Some (Node tg cs', t')
            | None => None
            end
        end in
      match n with
      | Node (K KBlock lo hi) [cx; Node Lst stmts] =>
          if status_eqb (t_status t) Cancelled then Some (n, t)
          else
            match map_st (op_visit c f true) [cx; Node Lst stmts] {| o_p := p_init; o_t := t |} with
            | Some ([cx'; Node Lst stmts'], s) =>
                if p_dup (o_p s)
                then Some (Node (K KBlock lo hi) [cx'; Node Lst stmts'],
                           t_cancel gen_cancel_reason (o_t s))
                else
                  let stmts'' := insert_let (p_idents (o_p s)) (lo, hi) stmts' in
                  children (Node (K KBlock lo hi) [cx'; Node Lst stmts'']) (o_t s)
            | Some (_, _) => None
            | None => None
            end
      | Node (K KIdent lo hi) _ =>
          (* visit_mut_ident: a user identifier with the reserved prefix anywhere cancels *)
          match ident_sym n with
          | Some sym =>
              if negb (is_dummy (lo, hi)) && String.prefix (var_prefix c) sym
                 && negb (status_eqb (t_status t) Cancelled)
              then Some (n, t_cancel gen_cancel_reason t)
              else Some (n, t)
          | None => Some (n, t)
          end
      | Node (K KArrow _ _) _ =>
          (* visit_mut_arrow_expr: an arrow reached by the block visitor lies outside every block *)
          children (if status_eqb (t_status t) Cancelled then n else arrow_transform n) t
      | _ =>
          (* literals, names, this/super, template elements and scalar fields have no node children in swc's AST *)
          if leaf n then Some (n, t) else children n t
      end
  end.

(** [visit_mut_program] *)
Definition insert_prologue (c : config) (body : list node) : list node :=
  insert_at (insertion_index body) (c_prefix_stmts c) body.

Definition program_visit (c : config) (fuel : nat) (prog : node) : option (node * tstate) :=
  match prog with
  | Node (K k lo hi) cs =>
      match map_st (block_visit c fuel) cs t_init with
      | Some (cs', t) =>
          if status_eqb (t_status t) Modified then
            match k, cs' with
            | KScript, [Node Lst body; interp] =>
                Some (Node (K k lo hi) [Node Lst (insert_prologue c body); interp], t)
            | KModule, [Node Lst body; interp] =>
                Some (Node (K k lo hi) [Node Lst (insert_prologue c body); interp], t)
            | _, _ => Some (Node (K k lo hi) cs', t)
            end
          else Some (Node (K k lo hi) cs', t)
      | None => None
      end
  | _ => None
  end.

(** Fuel that is always enough in practice (checked by the correspondence, see Termination.v). *)
Definition default_fuel (prog : node) : nat := 2 * node_depth prog + 64.

(** ** transform_js result shaping (rewriter.rs) *)
Inductive outcome :=
| OutOk (ast : node) (t : tstate)         (* Modified or NotModified *)
| OutErr (msg : string)                   (* Cancelled *)
| OutFuel.

Fixpoint subst_format (fmt : string) (args : list string) : string :=
  match fmt with
  | EmptyString => EmptyString
  | String "{" (String "}" rest) =>
      match args with
      | a :: args' => a ++ subst_format rest args'
      | [] => subst_format rest []
      end
  | String ch rest => String ch (subst_format rest args)
  end.

Definition rewrite (c : config) (file : string) (prog : node) : outcome :=
  match program_visit c (default_fuel prog) prog with
  | None => OutFuel
  | Some (ast, t) =>
      match t_status t with
      | Cancelled =>
          OutErr (subst_format gen_cancel_format
                    [file; match t_msg t with Some m => m | None => gen_cancel_unknown end])
      | _ => OutOk ast t
      end
  end.
