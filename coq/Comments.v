(** * Which [sourceMappingURL] comment supplies the original map (rewriter.rs [extract_source_map]).
    The comment store is a concurrent hash map: the loop meets the comments in an arbitrary order.  A
    qualifying comment is taken unless one at a later (or the same) position was taken before; the
    comparison is read from the code on every run ([gen_comment_skip]). *)
From Coq Require Import String List NArith Bool.
From IastRw Require Import Generated.
Import ListNotations.

Section Select.
  Variable qualifies : string -> bool.          (* the trimmed text starts with [# sourceMappingURL=] *)

  Definition comment := (N * string)%type.      (* position of the comment, its text *)

  Fixpoint select_from (acc : option comment) (l : list comment) : option comment :=
    match l with
    | [] => acc
    | (pos, text) :: r =>
        if qualifies text then
          match acc with
          | Some (p0, _) => if gen_comment_skip pos p0 then select_from acc r else select_from (Some (pos, text)) r
          | None => select_from (Some (pos, text)) r
          end
        else select_from acc r
    end.

  Definition select (l : list comment) : option comment := select_from None l.
End Select.
