From Coq Require Import String List NArith Bool Arith Lia.
From IastRw Require Import Ast Generated Config Model Partial.
Import ListNotations.

Lemma idx_lt {A} (l : list A) i : i < length l -> exists x, idx l i = Val x.
Proof.
  intros H. unfold idx. destruct (nth_error l i) eqn:E; [eauto|].
  apply nth_error_None in E. lia.
Qed.

Lemma all_res_no_panic {A} (f : A -> res bool) l : (forall x, f x <> Panic) -> all_res f l <> Panic.
Proof.
  intros Hf. induction l as [|x r IH]; simpl; [discriminate|].
  destruct (f x) as [b|] eqn:E; [|exfalso; eapply Hf; exact E]. simpl. destruct b; [exact IH | discriminate].
Qed.

(** No argument list, method name or argument shape makes [invalid_args] panic. *)
Theorem invalid_args_no_panic name args : invalid_args_p name args <> Panic.
Proof.
  unfold invalid_args_p. destruct (negb (String.eqb name "apply")); [discriminate|].
  destruct (Nat.leb 2 (length args)) eqn:L; [|discriminate]. apply Nat.leb_le in L.
  destruct (idx_lt args 0) as [this E0]; [lia|]. destruct (idx_lt args 1) as [arr E1]; [lia|].
  rewrite E0, E1. simpl. destruct (arg_expr arr) as [e|]; [|discriminate].
  unfold is_array. destruct (as_array e) as [elems|] eqn:Ea; simpl.
  - match goal with |- bind ?r _ <> Panic => destruct r as [b|] eqn:Er end; [simpl; discriminate|].
    exfalso. revert Er. apply all_res_no_panic. intros el.
    destruct (elem_opt el); simpl; discriminate.
  - destruct (arg_is_spread arr); discriminate.
Qed.

(** It computes what the total model ([Model.invalid_args], the one run against the code) computes. *)
Lemma all_res_forallb (f : node -> bool) l :
  all_res (fun el => match elem_opt el with
                     | None => Val false
                     | Some _ => bind (unwrap (elem_opt el)) (fun x => Val (f x))
                     end) l =
  Val (forallb (fun el => match el with Node Nul _ => false | _ => f el end) l).
Proof.
  induction l as [|x r IH]; [reflexivity|]. cbn [all_res forallb].
  destruct x as [[k lo hi| | | | | |] cs]; cbn [elem_opt unwrap bind];
    try (destruct (f _); [exact IH | reflexivity]); reflexivity.
Qed.

Theorem invalid_args_agrees name args : invalid_args_p name args = Val (invalid_args name args).
Proof.
  unfold invalid_args_p, invalid_args. destruct (negb (String.eqb name "apply")); [reflexivity|].
  destruct args as [|this [|arr rest]]; try reflexivity.
  cbn [length Nat.leb idx nth_error bind].
  destruct (arg_expr arr) as [e|] eqn:Ee.
  - unfold is_array. destruct (as_array e) as [elems|] eqn:Ea.
    + cbn [unwrap bind]. rewrite all_res_forallb. cbn [bind].
      destruct e as [[k lo hi| | | | | |] ecs]; try discriminate Ea. destruct k; try discriminate Ea.
      destruct ecs as [|[[| | | | | |] l] [|? ?]]; try discriminate Ea. inversion Ea; subst. reflexivity.
    + destruct e as [[k lo hi| | | | | |] ecs]; try (destruct (arg_is_spread arr); reflexivity).
      destruct k; try (destruct (arg_is_spread arr); reflexivity).
      destruct ecs as [|[[| | | | | |] l] [|? ?]]; try reflexivity; try discriminate Ea.
      all: destruct (arg_is_spread arr); reflexivity.
  - unfold arg_is_spread. unfold arg_expr in Ee.
    destruct arr as [[| | | | | |] [|a [|b [|? ?]]]]; try reflexivity; try discriminate Ee.
    all: destruct a as [[| | | | | |] ?]; reflexivity.
Qed.

Theorem first_this_no_panic args : first_this_p args <> Panic.
Proof.
  unfold first_this_p. destruct args as [|a r]; [discriminate|]. simpl. discriminate.
Qed.

Lemma prefix_length p s : String.prefix p s = true -> String.length p <= String.length s.
Proof.
  revert s. induction p as [|c p IH]; intros s H; simpl; [lia|].
  destruct s as [|d s]; simpl in *; [discriminate|].
  destruct (Ascii.ascii_dec c d); [|discriminate]. apply IH in H. lia.
Qed.

Theorem url_of_comment_no_panic trimmed : url_of_comment_p trimmed <> Panic.
Proof.
  unfold url_of_comment_p. destruct (String.prefix gen_SOURCE_MAP_URL trimmed) eqn:E; [|discriminate].
  unfold get_from. apply prefix_length in E. apply Nat.leb_le in E. rewrite E. simpl. discriminate.
Qed.
