(** * Configuration of the rewriter (mirror of [rewriter::Config], [CsiMethods], telemetry kinds). *)
From Coq Require Import String List NArith Bool.
From IastRw Require Import Ast Generated.
Import ListNotations.
Local Open Scope string_scope.

Record csi_method := {
  m_src : string;
  m_dst : string;
  m_operator : bool;
  m_awc : bool            (* allowed_without_callee *)
}.

Inductive verbosity := VOff | VMandatory | VInformation | VDebug.

Record config := {
  c_prefix : string;               (* local_var_prefix *)
  c_methods : list csi_method;
  c_lit_callers : list string;     (* method_with_literal_callers as held by the CsiMethods value *)
  c_verbosity : verbosity;
  c_literals : bool;
  c_chain : bool;
  c_comments : bool;
  c_prefix_stmts : list node       (* file_prefix_code, parsed by swc from the prologue template *)
}.

(** [CsiMethods::new]: the first operator entry with the reserved source name. *)
Definition find_operator (name : string) (ms : list csi_method) : option csi_method :=
  find (fun m => m_operator m && String.eqb (m_src m) name) ms.

Definition plus_operator (c : config) : option csi_method :=
  find_operator gen_DD_PLUS_OPERATOR (c_methods c).
Definition tpl_operator (c : config) : option csi_method :=
  find_operator gen_DD_TEMPLATE_LITERAL_OPERATOR (c_methods c).

Definition plus_enabled (c : config) : bool :=
  match plus_operator c with Some _ => true | None => false end.
Definition tpl_enabled (c : config) : bool :=
  match tpl_operator c with Some _ => true | None => false end.

Definition plus_name (c : config) : string :=
  match plus_operator c with Some m => m_dst m | None => gen_DD_PLUS_OPERATOR end.
Definition tpl_name (c : config) : string :=
  match tpl_operator c with Some m => m_dst m | None => gen_DD_TEMPLATE_LITERAL_OPERATOR end.

(** [CsiMethods::get]: first non-operator entry with that source name. *)
Definition csi_get (c : config) (name : string) : option csi_method :=
  find (fun m => negb (m_operator m) && String.eqb (m_src m) name) (c_methods c).

Definition allows_literal_callers (c : config) (name : string) : bool :=
  existsb (String.eqb name) (c_lit_callers c).

(** Names of the reserved identifiers. *)
Definition var_prefix (c : config) : string :=
  gen_DATADOG_VAR_PREFIX ++ "_" ++ c_prefix c ++ "_".

(** Every replacement name the configuration can make the rewriter emit. *)
Definition configured_dsts (c : config) : list string := map m_dst (c_methods c).
Definition configured (c : config) (name : string) : bool :=
  existsb (String.eqb name) (configured_dsts c).
