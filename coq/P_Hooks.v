(** * Local lemmas about the hook calls the transformations build (C02, C03, C04, C06, C12, C15). *)
From Coq Require Import String List NArith Bool Lia.
From IastRw Require Import Ast Generated Config Model HookSites Erase Shapes.
Import ListNotations.

(** ** The call built by [dd_call] is recognised as a hook call with exactly these arguments. *)
Lemma hook_callee_dd name span : hook_callee_name (dd_callee name span) = Some name.
Proof.
  unfold hook_callee_name, dd_callee, mk_member, mk_ident, mk_ident_name, mk. simpl.
  try rewrite String.eqb_refl. reflexivity.
Qed.

Lemma hook_call_dd_call e args name span :
  hook_call (dd_call e args name span) = Some (name, mk_arg e :: args).
Proof. unfold hook_call, dd_call, mk_call, mk. cbn [fst snd]. rewrite hook_callee_dd. reflexivity. Qed.

Lemma is_hook_dd_call e args name span : is_hook (dd_call e args name span) = true.
Proof. unfold is_hook. rewrite hook_call_dd_call. reflexivity. Qed.

(** ** Counting hook sites *)
Definition atom (n : node) : bool := leaf n || is_ident n.

Lemma hook_count_leaf n : atom n = true -> hook_count n = 0.
Proof. destruct n as [t cs]. unfold atom. cbn [hook_count]. intros ->. reflexivity. Qed.

Lemma hook_count_node t cs : atom (Node t cs) = false ->
  hook_count (Node t cs) = (if is_hook (Node t cs) then 1 else 0) + hook_count_list cs.
Proof. unfold atom. intros H. cbn [hook_count]. rewrite H. reflexivity. Qed.

Lemma hook_count_node_alt n : atom n = false ->
  hook_count n = (if is_hook n then 1 else 0) + hook_count_list (children n).
Proof. destruct n as [t cs]. apply hook_count_node. Qed.

Lemma hook_count_list_app a b : hook_count_list (a ++ b) = hook_count_list a + hook_count_list b.
Proof. unfold hook_count_list. induction a as [|x r IH]; simpl; [reflexivity | rewrite IH; lia]. Qed.

Lemma hook_count_list_cons x l : hook_count_list (x :: l) = hook_count x + hook_count_list l.
Proof. reflexivity. Qed.

Lemma hook_count_leaf_ident s sym : hook_count (mk_ident s sym) = 0.
Proof. reflexivity. Qed.

Lemma hook_count_dd_callee name span : hook_count (dd_callee name span) = 0.
Proof. reflexivity. Qed.

Lemma hook_count_mk_arg e : hook_count (mk_arg e) = hook_count e.
Proof. unfold mk_arg, nO, nNul. rewrite hook_count_node by reflexivity. simpl. lia. Qed.

Lemma hook_count_dd_call e args name span :
  hook_count (dd_call e args name span) = 1 + hook_count e + hook_count_list args.
Proof.
  rewrite hook_count_node_alt by reflexivity. rewrite is_hook_dd_call.
  unfold dd_call, mk_call, mk, children. cbn [fst snd hook_count_list fold_right].
  rewrite hook_count_dd_callee.
  change (hook_count ctxt0) with 0. change (hook_count nNul) with 0.
  unfold nL. rewrite (hook_count_node Lst) by reflexivity. cbn [is_hook hook_call hook_count_list fold_right].
  rewrite hook_count_mk_arg. fold (hook_count_list args). lia.
Qed.

(** The wrapped operation plus the hoisted assignments: exactly one new hook site. *)
Lemma hook_count_dd_paren e a name span :
  hook_count (dd_paren e a name span) =
    1 + hook_count e + hook_count_list (a_args a) + hook_count_list (a_assigns a).
Proof.
  unfold dd_paren. destruct (a_assigns a) as [|x xs] eqn:E.
  - rewrite hook_count_dd_call. simpl. lia.
  - unfold mk_paren, mk_seq, mk. cbn [fst snd].
    rewrite (hook_count_node (K KParen _ _)) by reflexivity. cbn [is_hook hook_call].
    unfold hook_count_list at 1. cbn [fold_right].
    rewrite (hook_count_node (K KSeq (fst span) (snd span))) by reflexivity. cbn [is_hook hook_call].
    unfold hook_count_list at 1. cbn [fold_right].
    rewrite (hook_count_node Lst) by reflexivity. cbn [is_hook hook_call].
    rewrite hook_count_list_app. unfold hook_count_list at 2. cbn [fold_right].
    rewrite hook_count_dd_call. lia.
Qed.

(** ** Erasing a hook call gives its first argument (erased). *)
Lemma erase_ident vp s sym : erase_node vp (mk_ident s sym) = mk_ident s sym.
Proof. reflexivity. Qed.

Lemma erase_dd_callee vp name span : erase_node vp (dd_callee name span) = dd_callee name span.
Proof. reflexivity. Qed.

Lemma erase_node_dd_call vp e args name span :
  erase_node vp (dd_call e args name span) = erase_node vp e.
Proof.
  unfold dd_call, mk_call, mk. cbn [fst snd].
  cbn [erase_node map]. rewrite erase_dd_callee.
  change (erase_node vp ctxt0) with ctxt0. change (erase_node vp nNul) with nNul.
  unfold post.
  assert (H : hook_call (Node (K KCall (fst span) (snd span))
                 [ctxt0; dd_callee name span; erase_node vp (nL (mk_arg e :: args)); nNul])
              = Some (name, mk_arg (erase_node vp e) :: map (erase_node vp) args)).
  { unfold nL. cbn [erase_node map]. unfold post at 1. unfold hook_call. rewrite hook_callee_dd.
    unfold mk_arg, nO, nNul. cbn [erase_node map post]. reflexivity. }
  rewrite H. reflexivity.
Qed.
