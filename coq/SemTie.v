(** * Tie between the core language of Sem.v and the trees of the implementation (C01).
    [abstract] reads a swc expression tree -- a source expression of the core fragment, or the shapes
    the rewriter builds from one -- back into the core language.  The check computes [Sem.rw] on the
    abstraction of the input expression and compares it with the abstraction of what the
    implementation (and the executable model) produced for the same input: the rewriting function the
    semantic theorem is about must be the one the code implements, on every expression tried. *)
From Coq Require Import String List NArith Bool Arith.
From IastRw Require Import Ast Generated Model HookSites Sem.
Import ListNotations.
Local Open Scope string_scope.

(** index of a temporary: the [n] with [name = vp ++ decimal n] (searched below a bound) *)
Fixpoint temp_index_from (vp name : string) (n fuel : nat) : option nat :=
  match fuel with
  | 0 => None
  | S f => if String.eqb name (vp ++ N_to_string (N.of_nat n)) then Some n
           else temp_index_from vp name (S n) f
  end.
Definition temp_index (vp name : string) : option nat := temp_index_from vp name 0 200.

Definition plain_arg (a : node) : option node :=
  match a with
  | Node Obj [Node Nul []; e] => Some e
  | _ => None
  end.

Fixpoint map_opt {A B} (f : A -> option B) (l : list A) : option (list B) :=
  match l with
  | [] => Some []
  | x :: r => match f x, map_opt f r with Some y, Some ys => Some (y :: ys) | _, _ => None end
  end.

Definition quasi_raw (q : node) : option string :=
  match q with
  | Node (K KTplElem _ _) [_; _; Node (Str raw) []] => Some raw
  | _ => None
  end.

Section Abstract.
  Variable vp : string.       (* prefix of temporaries *)
  Variable hook : string.     (* replacement name of the + operator *)

  Fixpoint abstract (fuel : nat) (n : node) : option expr :=
    match fuel with
    | 0 => None
    | S f =>
        match n with
        | Node (K KParen _ _) [e] =>
            (* an injected sequence (t = e, ..., body), or user parentheses *)
            match e with
            | Node (K KSeq _ _) [Node Lst items] =>
                match items with
                | [a1; body] =>
                    match assign_pair a1 with
                    | Some (t1, e1) =>
                        match body with
                        | Node (K KCond _ _) [Node (K KBin _ _) [Node (Str "==") []; g; Node (K KNullLit _ _) _]; u; alt] =>
                            (* the null guard of an optional chain: (t = e, t == null ? undefined : alt) *)
                            match temp_index vp t1, ident_sym g, ident_sym u, abstract f e1, abstract f alt with
                            | Some n1, Some gs, Some "undefined", Some x1, Some b =>
                                if String.eqb gs t1 then Some (Guard n1 x1 b) else None
                            | _, _, _, _, _ => None
                            end
                        | _ =>
                            match temp_index vp t1, abstract f e1, abstract f body with
                            | Some n1, Some x1, Some b => Some (Hoist1 n1 x1 b)
                            | _, _, _ => None
                            end
                        end
                    | None => None
                    end
                | [a1; a2; a3; body] =>
                    match assign_pair a1, assign_pair a2, assign_pair a3 with
                    | Some (t1, e1), Some (t2, e2), Some (t3, e3) =>
                        match temp_index vp t1, abstract f e1, temp_index vp t2, abstract f e2,
                              temp_index vp t3, abstract f e3, abstract f body with
                        | Some n1, Some x1, Some n2, Some x2, Some n3, Some x3, Some b => Some (Hoist3 n1 x1 n2 x2 n3 x3 b)
                        | _, _, _, _, _, _, _ => None
                        end
                    | _, _, _ => None
                    end
                | [a1; a2; body] =>
                    match assign_pair a1, assign_pair a2 with
                    | Some (t1, e1), Some (t2, e2) =>
                        match temp_index vp t1, abstract f e1, temp_index vp t2, abstract f e2, abstract f body with
                        | Some n1, Some x1, Some n2, Some x2, Some b => Some (Hoist2 n1 x1 n2 x2 b)
                        | _, _, _, _, _ => None
                        end
                    | _, _ => None
                    end
                | _ => None
                end
            | _ => match abstract f e with Some x => Some (Par x) | None => None end
            end
        | Node (K KIdent _ _) _ =>
            match ident_sym n with
            | Some s => if String.prefix vp s
                        then match temp_index vp s with Some i => Some (Tmp i) | None => None end
                        else Some (Var s)
            | None => None
            end
        | Node (K KStr _ _) (Node (Str s) [] :: _) => Some (Lit (VStr s))
        | Node (K KAssign _ _) [Node (Str op) []; lhs; rhs] =>
            (* x += e, o.k += e in sources; x = e, o.k = e as the rewriter builds them (assignments to temporaries
               only occur inside injected sequences, which are read above) *)
            let target :=
              match lhs with
              | Node (K KMember _ _) [obj; prop] =>
                  match prop with
                  | Node (K KIdentName _ _) [Node (Str kname) []] =>
                      match abstract f obj with Some ox => Some (inr (inl (ox, kname))) | None => None end
                  | Node (K KComputed _ _) [kx] =>
                      (* o[k] += e in sources; o[k] = e as the rewriter builds it *)
                      match abstract f obj, abstract f kx with Some ox, Some k => Some (inr (inr (ox, k))) | _, _ => None end
                  | _ => None
                  end
              | _ => match ident_sym lhs with
                     | Some x => if String.prefix vp x then None else Some (inl x)
                     | None => None
                     end
              end in
            match target, abstract f rhs with
            | Some (inl x), Some ex =>
                if String.eqb op "+=" then Some (AddAsgV x ex) else if String.eqb op "=" then Some (AsgV x ex) else None
            | Some (inr (inl (ox, kname))), Some ex =>
                if String.eqb op "+=" then Some (AddAsgM ox kname ex) else if String.eqb op "=" then Some (AsgM ox kname ex) else None
            | Some (inr (inr (ox, k))), Some ex =>
                if String.eqb op "+=" then Some (AddAsgC ox k ex) else if String.eqb op "=" then Some (AsgC ox k ex) else None
            | _, _ => None
            end
        | Node (K KBin _ _) [Node (Str "+") []; l; r] =>
            match abstract f l, abstract f r with
            | Some a, Some b => Some (Add a b)
            | _, _ => None
            end
        | Node (K KCall _ _) [_; callee; Node Lst args; _] =>
            match hook_callee_name callee with
            | Some name =>
                if String.eqb name hook || negb (String.eqb name "") then
                  match args with
                  | first :: rest =>
                      match plain_arg first with
                      | Some fe =>
                          match abstract f fe,
                                map_opt (fun a => match plain_arg a with Some e => abstract f e | None => None end) rest with
                          | Some x, Some xs => Some (Hook x xs)
                          | _, _ => None
                          end
                      | None => None
                      end
                  | [] => None
                  end
                else None
            | None =>
                match callee, args with
                | Node (K KOptChain _ _) [Node (Bln true) []; Node (K KMember _ _) [obj; Node (K KIdentName _ _) [Node (Str mname) []]]], [] =>
                    (* o?.m() whose outer (non-optional) chain link was dissolved by the chain visitor without any other change *)
                    match abstract f obj with Some ox => Some (OptMCall0 ox mname) | None => None end
                | Node (K KOptChain _ _) [Node (Bln true) []; Node (K KMember _ _) [obj; Node (K KIdentName _ _) [Node (Str mname) []]]], [a] =>
                    match plain_arg a with
                    | Some ae =>
                        match abstract f obj, abstract f ae with
                        | Some ox, Some ax => Some (OptMCall1 ox mname ax)
                        | _, _ => None
                        end
                    | None => None
                    end
                | Node (K KMember _ _) [obj; Node (K KIdentName _ _) [Node (Str mname) []]], [] =>
                    (* a method call o.m() *)
                    match abstract f obj with Some ox => Some (MCall0 ox mname) | None => None end
                | Node (K KMember _ _) [fn; Node (K KIdentName _ _) [Node (Str "call") []]], [th] =>
                    (* fn.call(this): as the rewriter builds it (a source call x.call(y) is read the same way,
                       on both sides of the comparison) *)
                    match plain_arg th with
                    | Some te =>
                        match abstract f fn, abstract f te with
                        | Some fx, Some tx => Some (CallT0 fx tx)
                        | _, _ => None
                        end
                    | None => None
                    end
                | Node (K KMember _ _) [obj; Node (K KIdentName _ _) [Node (Str mname) []]], [a] =>
                    (* a method call o.m(a) *)
                    match plain_arg a with
                    | Some ae =>
                        match abstract f obj, abstract f ae with
                        | Some ox, Some ax => Some (MCall1 ox mname ax)
                        | _, _ => None
                        end
                    | None => None
                    end
                | Node (K KMember _ _) [fn; Node (K KIdentName _ _) [Node (Str "call") []]], [th; a] =>
                    (* fn.call(this, a), as the rewriter builds it *)
                    match plain_arg th, plain_arg a with
                    | Some te, Some ae =>
                        match abstract f fn, abstract f te, abstract f ae with
                        | Some fx, Some tx, Some ax => Some (CallT1 fx tx ax)
                        | _, _, _ => None
                        end
                    | _, _ => None
                    end
                | _, [a] =>
                    match plain_arg a with
                    | Some ae =>
                        match abstract f callee, abstract f ae with
                        | Some fx, Some ax => Some (CallE fx ax)
                        | _, _ => None
                        end
                    | None => None
                    end
                | _, _ => None
                end
            end
        | Node (K KOptChain _ _) [Node (Bln false) []; Node (K KCall _ _)
              [_; Node (K KOptChain _ _) [Node (Bln true) []; Node (K KMember _ _) [obj; Node (K KIdentName _ _) [Node (Str mname) []]]]; Node Lst args; _]] =>
            (* an optional method call o?.m() / o?.m(a) *)
            match abstract f obj, args with
            | Some ox, [] => Some (OptMCall0 ox mname)
            | Some ox, [a] =>
                match plain_arg a with
                | Some ae => match abstract f ae with Some ax => Some (OptMCall1 ox mname ax) | None => None end
                | None => None
                end
            | _, _ => None
            end
        | Node (K KTpl _ _) [Node Lst es; Node Lst qs] =>
            (* a template literal with one or two substitutions (the pieces by their raw text) *)
            match es, map quasi_raw qs with
            | [e1], [Some q0; Some q1] =>
                match abstract f e1 with Some x1 => Some (Tpl1 q0 x1 q1) | None => None end
            | [e1; e2], [Some q0; Some q1; Some q2] =>
                match abstract f e1, abstract f e2 with
                | Some x1, Some x2 => Some (Tpl2 q0 x1 q1 x2 q2)
                | _, _ => None
                end
            | _, _ => None
            end
        | Node (K KMember _ _) [obj; prop] =>
            match prop with
            | Node (K KIdentName _ _) [Node (Str mname) []] =>
                (* a property read: only as the function the rewriter captures *)
                match abstract f obj with Some ox => Some (Get ox mname) | None => None end
            | Node (K KComputed _ _) [kx] =>
                (* o[k]: only as the old value the rewriter reads for a compound assignment *)
                match abstract f obj, abstract f kx with Some ox, Some k => Some (GetC ox k) | _, _ => None end
            | _ => None
            end
        | _ => None
        end
    end.
End Abstract.

(** ** Decidable equality of core expressions *)
Definition value_eqb (a b : value) : bool :=
  match a, b with
  | VUndef, VUndef => true
  | VStr s, VStr t => String.eqb s t
  | VObj n, VObj m => Nat.eqb n m
  | _, _ => false
  end.

Fixpoint expr_eqb (a b : expr) : bool :=
  match a, b with
  | Lit v, Lit w => value_eqb v w
  | Var x, Var y => String.eqb x y
  | Tmp n, Tmp m => Nat.eqb n m
  | Add l r, Add l' r' => expr_eqb l l' && expr_eqb r r'
  | CallE f x, CallE f' x' => expr_eqb f f' && expr_eqb x x'
  | Par x, Par y => expr_eqb x y
  | AddAsgV x e, AddAsgV y e' => String.eqb x y && expr_eqb e e'
  | AsgV x e, AsgV y e' => String.eqb x y && expr_eqb e e'
  | AddAsgM o k e, AddAsgM o' k' e' => expr_eqb o o' && String.eqb k k' && expr_eqb e e'
  | AsgM o k e, AsgM o' k' e' => expr_eqb o o' && String.eqb k k' && expr_eqb e e'
  | MCall0 o m, MCall0 o' m' => expr_eqb o o' && String.eqb m m'
  | CallT0 f t, CallT0 f' t' => expr_eqb f f' && expr_eqb t t'
  | MCall1 o m a, MCall1 o' m' a' => expr_eqb o o' && String.eqb m m' && expr_eqb a a'
  | AddAsgC o k e, AddAsgC o' k' e' => expr_eqb o o' && expr_eqb k k' && expr_eqb e e'
  | AsgC o k e, AsgC o' k' e' => expr_eqb o o' && expr_eqb k k' && expr_eqb e e'
  | GetC o k, GetC o' k' => expr_eqb o o' && expr_eqb k k'
  | Get o m, Get o' m' => expr_eqb o o' && String.eqb m m'
  | CallT1 f t a, CallT1 f' t' a' => expr_eqb f f' && expr_eqb t t' && expr_eqb a a'
  | Hoist3 n1 e1 n2 e2 n3 e3 b, Hoist3 m1 f1 m2 f2 m3 f3 c =>
      Nat.eqb n1 m1 && expr_eqb e1 f1 && Nat.eqb n2 m2 && expr_eqb e2 f2 && Nat.eqb n3 m3 && expr_eqb e3 f3 && expr_eqb b c
  | Hoist2 n1 e1 n2 e2 b, Hoist2 m1 f1 m2 f2 c =>
      Nat.eqb n1 m1 && expr_eqb e1 f1 && Nat.eqb n2 m2 && expr_eqb e2 f2 && expr_eqb b c
  | Hoist1 n1 e1 b, Hoist1 m1 f1 c => Nat.eqb n1 m1 && expr_eqb e1 f1 && expr_eqb b c
  | Hook x xs, Hook y ys =>
      expr_eqb x y &&
      (fix go (l l' : list expr) : bool :=
         match l, l' with
         | [], [] => true
         | p :: r, q :: s => expr_eqb p q && go r s
         | _, _ => false
         end) xs ys
  | OptMCall0 o m, OptMCall0 o' m' => expr_eqb o o' && String.eqb m m'
  | OptMCall1 o m a, OptMCall1 o' m' a' => expr_eqb o o' && String.eqb m m' && expr_eqb a a'
  | Guard n e b, Guard n' e' b' => Nat.eqb n n' && expr_eqb e e' && expr_eqb b b'
  | Tpl1 q0 e q1, Tpl1 p0 e' p1 => String.eqb q0 p0 && expr_eqb e e' && String.eqb q1 p1
  | Tpl2 q0 e1 q1 e2 q2, Tpl2 p0 f1 p1 f2 p2 =>
      String.eqb q0 p0 && expr_eqb e1 f1 && String.eqb q1 p1 && expr_eqb e2 f2 && String.eqb q2 p2
  | _, _ => false
  end.

(** ** The expression under test: the argument of the last [return] of the tree, in pre-order *)
Fixpoint last_return (n : node) : option node :=
  match n with
  | Node t cs =>
      let below :=
        (fix go (l : list node) (acc : option node) : option node :=
           match l with
           | [] => acc
           | c :: l' => go l' (match last_return c with Some r => Some r | None => acc end)
           end) cs None in
      match below with
      | Some r => Some r
      | None => match n with Node (K KReturn _ _) [arg] => Some arg | _ => None end
      end
  end.

Inductive tie_result := TieNotCore | TieNoOutput | TieAgree | TieDiffer.

(** [sem_tie vp hook ast_in ast_out]: rewrite the abstraction of the input's expression with [Sem.rw]
    from counter 0 (at the root of the visitor: [Sem.rw_root]) and compare with the abstraction of the output's expression. *)
Definition sem_tie (vp hook : string) (instr lit_ok awc : string -> bool) (plus_on : bool) (ast_in ast_out : node) : tie_result :=
  match last_return ast_in with
  | None => TieNotCore
  | Some ein =>
      match abstract vp hook (S (node_depth ein)) ein with
      | None => TieNotCore
      | Some e =>
          match last_return ast_out with
          | None => TieNoOutput
          | Some eout =>
              match abstract vp hook (S (node_depth eout)) eout with
              | None => TieDiffer
              | Some o => if expr_eqb (rw_root instr lit_ok awc plus_on e) o then TieAgree else TieDiffer
              end
          end
      end
  end.
