(** * Panic-faithful models of the guarded partial operations (C13).
    Indexing and [unwrap] return the distinguished outcome [Panic] when the Rust operation would
    panic; the functions below mirror the control flow around the inventoried sites of
    function_prototype_transform.rs and rewriter.rs (extract_source_map). *)
From Coq Require Import String List NArith Bool Arith.
From IastRw Require Import Ast Generated Config Model.
Import ListNotations.
Local Open Scope string_scope.

Inductive res (A : Type) := Val (a : A) | Panic.
Arguments Val {A} a.
Arguments Panic {A}.

Definition idx {A} (l : list A) (i : nat) : res A :=
  match nth_error l i with Some x => Val x | None => Panic end.
Definition unwrap {A} (o : option A) : res A := match o with Some x => Val x | None => Panic end.
Definition bind {A B} (r : res A) (k : A -> res B) : res B := match r with Val a => k a | Panic => Panic end.

(** [invalid_args]: [call.args[0]], [call.args[1]] under [len() >= 2]; [as_array().unwrap()] under
    [is_array()]; [elem.as_ref().unwrap()] after the [is_none()] early return. *)
Definition as_array (e : node) : option (list node) :=
  match e with Node (K KArray _ _) [Node Lst elems] => Some elems | _ => None end.
Definition is_array (e : node) : bool := match as_array e with Some _ => true | None => false end.
Definition elem_opt (el : node) : option node := match el with Node Nul _ => None | _ => Some el end.

Fixpoint all_res {A} (f : A -> res bool) (l : list A) : res bool :=
  match l with
  | [] => Val true
  | x :: r => bind (f x) (fun b => if b then all_res f r else Val false)
  end.

Definition invalid_args_p (name : string) (args : list node) : res bool :=
  if negb (String.eqb name "apply") then Val false
  else if Nat.leb 2 (length args) then
    bind (idx args 0) (fun this =>
    bind (idx args 1) (fun arr =>
      match arg_expr arr with
      | Some e =>
          if is_array e then
            bind (unwrap (as_array e)) (fun elems =>
              bind (all_res (fun el => match elem_opt el with
                                       | None => Val false
                                       | Some _ => bind (unwrap (elem_opt el)) (fun x => Val (arg_lit_or_undef x))
                                       end) (skipn 1 elems)) (fun all_lit =>
              Val ((match arg_expr this with Some t => is_lit t | None => false end) && all_lit)))
          else if arg_is_spread arr then Val false else Val true
      | None => Val true
      end))
  else Val true.

(** [get_expression_parts_from_call_or_apply]: [call.args[0]] after the [is_empty()] early return. *)
Definition first_this_p (args : list node) : res (option node) :=
  if match args with [] => true | _ => false end then Val None
  else bind (idx args 0) (fun a => Val (Some a)).

(** [extract_source_map]: [trim_comment.get(SOURCE_MAP_URL.len()..).unwrap()] under [starts_with]. *)
Definition get_from (s : string) (n : nat) : option string :=
  if Nat.leb n (String.length s) then Some (substring n (String.length s - n) s) else None.
Definition url_of_comment_p (trimmed : string) : res (option string) :=
  if String.prefix gen_SOURCE_MAP_URL trimmed
  then bind (unwrap (get_from trimmed (String.length gen_SOURCE_MAP_URL))) (fun u => Val (Some u))
  else Val None.
