(** * Syntax trees: a rose tree mirroring swc's own serde serialization of its AST.

    The harness dumps every swc node generically:
    - an object with a "type"  ->  [Node (K kind lo hi) children]   (children = the remaining
      fields in declaration order, which is also swc's default visit order);
    - an object without a type ->  [Node Obj children]  (e.g. ExprOrSpread = O [spread; expr]);
    - an array -> [Node Lst elems];  null -> [Node Nul []];  scalars -> leaves [Str]/[Bln]/[Num].
    Nothing is dropped, so two different swc trees never dump equal. *)
From Coq Require Import String List NArith Bool Ascii.
Import ListNotations.
Local Open Scope string_scope.

Inductive kind :=
| KScript | KModule
| KBlock | KExprStmt | KIf | KReturn | KVarDecl | KVarDeclarator | KEmptyStmt
| KBin | KAssign | KTpl | KTplElem | KTaggedTpl | KCall | KNew | KMember | KSuperProp
| KOptChain | KUnary | KUpdate | KArrow | KParen | KSeq | KCond | KArray | KObject
| KKeyValue | KIdent | KIdentName | KComputed | KSpreadElement
| KStr | KNum | KBoolLit | KNullLit | KRegex | KBigInt | KJSXText
| KFnDecl | KFnExpr | KClassDecl | KClassExpr | KParam
| KClassMethod | KPrivateMethod | KConstructor | KClassProp | KPrivateProp | KStaticBlock
| KMethodProp | KGetterProp | KSetterProp | KAssignProp
| KArrayPat | KObjectPat | KAssignPat | KRestPat | KKeyValuePat | KAssignPatProp
| KThis | KSuper | KImport | KYield | KAwait | KMetaProp | KPrivateName
| KFor | KForIn | KForOf | KWhile | KDoWhile | KSwitch | KSwitchCase | KTry | KCatch
| KThrow | KLabeled | KBreak | KContinue | KWith | KDebugger
| KImportDecl | KExportDecl | KExportDefaultDecl | KExportDefaultExpr | KExportNamed | KExportAll
| KOther (name : string).

Definition kind_table : list (string * kind) :=
  [ ("Script", KScript); ("Module", KModule);
    ("BlockStatement", KBlock); ("ExpressionStatement", KExprStmt); ("IfStatement", KIf);
    ("ReturnStatement", KReturn); ("VariableDeclaration", KVarDecl);
    ("VariableDeclarator", KVarDeclarator); ("EmptyStatement", KEmptyStmt);
    ("BinaryExpression", KBin); ("AssignmentExpression", KAssign); ("TemplateLiteral", KTpl);
    ("TemplateElement", KTplElem); ("TaggedTemplateExpression", KTaggedTpl);
    ("CallExpression", KCall); ("NewExpression", KNew); ("MemberExpression", KMember);
    ("SuperPropExpression", KSuperProp);
    ("OptionalChainingExpression", KOptChain); ("UnaryExpression", KUnary);
    ("UpdateExpression", KUpdate); ("ArrowFunctionExpression", KArrow);
    ("ParenthesisExpression", KParen); ("SequenceExpression", KSeq);
    ("ConditionalExpression", KCond); ("ArrayExpression", KArray); ("ObjectExpression", KObject);
    ("KeyValueProperty", KKeyValue); ("Identifier", KIdent); ("IdentName", KIdentName);
    ("Computed", KComputed); ("SpreadElement", KSpreadElement);
    ("StringLiteral", KStr); ("NumericLiteral", KNum); ("BooleanLiteral", KBoolLit);
    ("NullLiteral", KNullLit); ("RegExpLiteral", KRegex); ("BigIntLiteral", KBigInt);
    ("JSXText", KJSXText);
    ("FunctionDeclaration", KFnDecl); ("FunctionExpression", KFnExpr);
    ("ClassDeclaration", KClassDecl); ("ClassExpression", KClassExpr); ("Parameter", KParam);
    ("ClassMethod", KClassMethod); ("PrivateMethod", KPrivateMethod);
    ("Constructor", KConstructor); ("ClassProperty", KClassProp);
    ("PrivateProperty", KPrivateProp); ("StaticBlock", KStaticBlock);
    ("MethodProperty", KMethodProp); ("GetterProperty", KGetterProp);
    ("SetterProperty", KSetterProp); ("AssignmentProperty", KAssignProp);
    ("ArrayPattern", KArrayPat); ("ObjectPattern", KObjectPat);
    ("AssignmentPattern", KAssignPat); ("RestElement", KRestPat);
    ("KeyValuePatternProperty", KKeyValuePat); ("AssignmentPatternProperty", KAssignPatProp);
    ("ThisExpression", KThis); ("Super", KSuper); ("Import", KImport);
    ("YieldExpression", KYield); ("AwaitExpression", KAwait); ("MetaProperty", KMetaProp);
    ("PrivateName", KPrivateName);
    ("ForStatement", KFor); ("ForInStatement", KForIn); ("ForOfStatement", KForOf);
    ("WhileStatement", KWhile); ("DoWhileStatement", KDoWhile); ("SwitchStatement", KSwitch);
    ("SwitchCase", KSwitchCase); ("TryStatement", KTry); ("CatchClause", KCatch);
    ("ThrowStatement", KThrow); ("LabeledStatement", KLabeled); ("BreakStatement", KBreak);
    ("ContinueStatement", KContinue); ("WithStatement", KWith); ("DebuggerStatement", KDebugger);
    ("ImportDeclaration", KImportDecl); ("ExportDeclaration", KExportDecl);
    ("ExportDefaultDeclaration", KExportDefaultDecl);
    ("ExportDefaultExpression", KExportDefaultExpr);
    ("ExportNamedDeclaration", KExportNamed); ("ExportAllDeclaration", KExportAll) ].

Fixpoint assoc_kind (s : string) (t : list (string * kind)) : option kind :=
  match t with
  | [] => None
  | (n, k) :: t' => if String.eqb s n then Some k else assoc_kind s t'
  end.

Definition kind_of_string (s : string) : kind :=
  match assoc_kind s kind_table with Some k => k | None => KOther s end.

Definition kind_eq_dec : forall a b : kind, {a = b} + {a <> b}.
Proof. decide equality; apply string_dec. Defined.

Definition kind_eqb (a b : kind) : bool := if kind_eq_dec a b then true else false.

Fixpoint rassoc_kind (k : kind) (t : list (string * kind)) : option string :=
  match t with
  | [] => None
  | (n, k') :: t' => if kind_eqb k k' then Some n else rassoc_kind k t'
  end.

Definition string_of_kind (k : kind) : string :=
  match k with
  | KOther s => s
  | _ => match rassoc_kind k kind_table with Some s => s | None => "?" end
  end.

Inductive tag :=
| K (k : kind) (lo hi : N)   (* typed swc node with its span; (0,0) is swc's DUMMY_SP *)
| Obj                        (* object without a type *)
| Lst                        (* array *)
| Nul                        (* null *)
| Str (s : string)           (* string scalar *)
| Bln (b : bool)             (* boolean scalar *)
| Num (s : string).          (* number scalar, as rendered by serde_json *)

Inductive node := Node (t : tag) (cs : list node).

Definition tag_of (n : node) : tag := match n with Node t _ => t end.
Definition children (n : node) : list node := match n with Node _ cs => cs end.

Definition tag_eq_dec : forall a b : tag, {a = b} + {a <> b}.
Proof.
  decide equality; try apply N.eq_dec; try apply string_dec; try apply kind_eq_dec;
    apply bool_dec.
Defined.

Definition tag_eqb (a b : tag) : bool := if tag_eq_dec a b then true else false.

Fixpoint node_eqb (a b : node) {struct a} : bool :=
  match a, b with
  | Node ta ca, Node tb cb =>
      tag_eqb ta tb &&
      (fix go (x y : list node) {struct x} : bool :=
         match x, y with
         | [], [] => true
         | p :: x', q :: y' => node_eqb p q && go x' y'
         | _, _ => false
         end) ca cb
  end.

(** Size and depth (used for fuel). *)
Fixpoint node_size (n : node) : nat :=
  match n with
  | Node _ cs => Datatypes.S (fold_right (fun c acc => node_size c + acc) 0 cs)
  end.

Fixpoint node_depth (n : node) : nat :=
  match n with
  | Node _ cs => Datatypes.S (fold_right (fun c acc => Nat.max (node_depth c) acc) 0 cs)
  end.

(** ** A usable induction principle for the nested type. *)
Section NodeInd.
  Variable P : node -> Prop.
  Hypothesis H : forall t cs, Forall P cs -> P (Node t cs).
  Fixpoint node_ind' (n : node) : P n :=
    match n with
    | Node t cs =>
        H t cs ((fix go (l : list node) : Forall P l :=
                   match l with
                   | [] => Forall_nil P
                   | c :: l' => Forall_cons c (node_ind' c) (go l')
                   end) cs)
    end.
End NodeInd.

(** ** Smart constructors and views (field layouts as swc serializes them). *)
Definition dummy_lo : N := 0%N.
Definition sp := (N * N)%type.
Definition DUMMY : sp := (0%N, 0%N).

Definition mk (k : kind) (s : sp) (cs : list node) : node := Node (K k (fst s) (snd s)) cs.
Definition nS (s : string) : node := Node (Str s) [].
Definition nB (b : bool) : node := Node (Bln b) [].
Definition nNum (s : string) : node := Node (Num s) [].
Definition nNul : node := Node Nul [].
Definition nL (l : list node) : node := Node Lst l.
Definition nO (l : list node) : node := Node Obj l.
Definition ctxt0 : node := nNum "0".

Definition span_of (n : node) : sp :=
  match n with Node (K _ lo hi) _ => (lo, hi) | _ => DUMMY end.
Definition kind_of (n : node) : option kind :=
  match n with Node (K k _ _) _ => Some k | _ => None end.
Definition is_kind (k : kind) (n : node) : bool :=
  match kind_of n with Some k' => kind_eqb k k' | None => false end.
Definition is_dummy (s : sp) : bool := (N.eqb (fst s) 0 && N.eqb (snd s) 0)%bool.

(** Ident {span, ctxt, sym, optional}  /  BindingIdent adds typeAnnotation. *)
Definition mk_ident (s : sp) (sym : string) : node := mk KIdent s [ctxt0; nS sym; nB false].
Definition mk_binding_ident (s : sp) (sym : string) : node :=
  mk KIdent s [ctxt0; nS sym; nB false; nNul].
Definition mk_ident_name (s : sp) (sym : string) : node := mk KIdentName s [nS sym].

Definition ident_sym (n : node) : option string :=
  match n with
  | Node (K KIdent _ _) (_ :: Node (Str sym) [] :: _) => Some sym
  | _ => None
  end.
Definition ident_name_sym (n : node) : option string :=
  match n with
  | Node (K KIdentName _ _) (Node (Str sym) [] :: _) => Some sym
  | _ => None
  end.

(** ExprOrSpread {spread: Option<Span>, expr}. A span that is not a node's own "span" field is a
    type-less object {start, end}. *)
Definition span_obj (s : sp) : node := nO [nNum "0"; nNum "0"].  (* only DUMMY_SP is ever built *)
Definition mk_arg (e : node) : node := nO [nNul; e].
Definition mk_spread_arg (e : node) : node := nO [span_obj DUMMY; e].
Definition arg_expr (a : node) : option node :=
  match a with Node Obj [_; e] => Some e | _ => None end.
Definition arg_is_spread (a : node) : bool :=
  match a with Node Obj [Node Nul _; _] => false | Node Obj [_; _] => true | _ => false end.

Definition mk_bin (s : sp) (op : string) (l r : node) : node := mk KBin s [nS op; l; r].
Definition mk_assign (s : sp) (op : string) (l r : node) : node := mk KAssign s [nS op; l; r].
Definition mk_member (s : sp) (obj prop : node) : node := mk KMember s [obj; prop].
Definition mk_call (s : sp) (callee : node) (args : list node) : node :=
  mk KCall s [ctxt0; callee; nL args; nNul].
Definition mk_paren (s : sp) (e : node) : node := mk KParen s [e].
Definition mk_seq (s : sp) (es : list node) : node := mk KSeq s [nL es].
Definition mk_cond (s : sp) (t c a : node) : node := mk KCond s [t; c; a].
Definition mk_array (s : sp) (elems : list node) : node := mk KArray s [nL elems].
Definition mk_null (s : sp) : node := mk KNullLit s [].
Definition mk_return (s : sp) (arg : node) : node := mk KReturn s [arg].
Definition mk_block (s : sp) (stmts : list node) : node := mk KBlock s [ctxt0; nL stmts].
Definition mk_var_declarator (s : sp) (id : node) : node := mk KVarDeclarator s [id; nNul; nB false].
Definition mk_let (s : sp) (decls : list node) : node :=
  mk KVarDecl s [ctxt0; nS "let"; nB false; nL decls].

Definition is_lit_kind (k : kind) : bool :=
  match k with
  | KStr | KNum | KBoolLit | KNullLit | KRegex | KBigInt | KJSXText => true
  | _ => false
  end.
Definition is_lit (n : node) : bool :=
  match kind_of n with Some k => is_lit_kind k | None => false end.
Definition is_ident (n : node) : bool := is_kind KIdent n.

(** Leaves of the expression grammar: literals, property names, [this], [super], template chunks.
    In swc's trees their fields are scalars (no visitable children). *)
Definition is_leaf_kind (k : kind) : bool :=
  is_lit_kind k ||
  match k with KIdentName | KPrivateName | KThis | KSuper | KTplElem => true | _ => false end.

Definition leaf (n : node) : bool :=
  match n with
  | Node (K k _ _) _ => is_leaf_kind k
  | Node (Str _) _ | Node (Bln _) _ | Node (Num _) _ | Node Nul _ => true    (* scalars *)
  | Node Obj _ | Node Lst _ => false
  end.

Definition list_of (n : node) : list node := match n with Node Lst l => l | _ => [] end.
