(** * C12 -- program level: the prologue is inserted iff the file is modified; [rewrite] shapes. *)
From Coq Require Import String List NArith Bool Lia.
From IastRw Require Import Ast Generated Config Model.
Import ListNotations.

Lemma status_eqb_true a b : status_eqb a b = true <-> a = b.
Proof. destruct a, b; simpl; split; intro H; try reflexivity; try discriminate. Qed.

(** The block visitor never changes the tag (kind and span) of the node it is applied to. *)
Lemma block_visit_tag c : forall fuel n t n' t',
  block_visit c fuel n t = Some (n', t') -> tag_of n' = tag_of n.
Proof.
  destruct fuel as [|f]; intros n t n' t' H; [discriminate|].
  assert (CH : forall tg cs t0 r t0',
             match map_st (block_visit c f) cs t0 with
             | Some (cs', t1) => Some (Node tg cs', t1)
             | None => None
             end = Some (r, t0') -> tag_of r = tg).
  { intros tg cs t0 r t0' H0. destruct (map_st (block_visit c f) cs t0) as [[cs' t1]|]; [|discriminate].
    inversion H0; subst. reflexivity. }
  cbn [block_visit] in H.
  Ltac fin_tag CH H := first [ apply CH in H; exact H | destruct (leaf _); [inversion H; subst; reflexivity | apply CH in H; exact H] ].
  destruct n as [tg cs]. destruct tg as [k lo hi| | | | | |]; try (fin_tag CH H).
  destruct k; try (fin_tag CH H).
  - destruct cs as [|cx [|[[| | | | | |] stmts] [|? ?]]]; try (fin_tag CH H).
    destruct (status_eqb (t_status t) Cancelled); [inversion H; subst; reflexivity|].
    destruct (map_st (op_visit c f true) [cx; Node Lst stmts] _) as [[l s]|]; [|discriminate].
    destruct l as [|cx' [|[[| | | | | |] stmts'] [|? ?]]]; try discriminate.
    destruct (p_dup (o_p s)); [inversion H; subst; reflexivity | apply CH in H; exact H].
  - destruct (status_eqb (t_status t) Cancelled); [apply CH in H; exact H|].
    unfold arrow_transform in H.
    destruct cs as [|cx [|params [|body [|asy [|gen [|tp [|rt [|? ?]]]]]]]]; try (fin_tag CH H).
    destruct (is_kind KBlock body); apply CH in H; exact H.
  - destruct (ident_sym (Node (K KIdent lo hi) cs)); [|inversion H; subst; reflexivity].
    match type of H with (if ?b then _ else _) = _ => destruct b end; inversion H; subst; reflexivity.
Qed.

(** The program visitor: the top-level statements are visited and the configured prologue is
    inserted exactly when the status is Modified. *)
Lemma program_visit_shape c fuel k lo hi body interp ast t :
  (k = KScript \/ k = KModule) ->
  program_visit c fuel (Node (K k lo hi) [Node Lst body; interp]) = Some (ast, t) ->
  exists body' interp',
    map_st (block_visit c fuel) [Node Lst body; interp] t_init = Some ([Node Lst body'; interp'], t) /\
    ast = Node (K k lo hi)
               [Node Lst (if status_eqb (t_status t) Modified then insert_prologue c body' else body'); interp'].
Proof.
  intros Hk. unfold program_visit.
  destruct (map_st (block_visit c fuel) [Node Lst body; interp] t_init) as [[cs' t1]|] eqn:E; [|discriminate].
  assert (S : exists body' interp', cs' = [Node Lst body'; interp']).
  { simpl in E.
    destruct (block_visit c fuel (Node Lst body) t_init) as [[x t2]|] eqn:E1; [|discriminate].
    destruct (block_visit c fuel interp t2) as [[y t3]|] eqn:E2; [|discriminate].
    inversion E; subst. apply block_visit_tag in E1. destruct x as [tx bx]. simpl in E1. subst tx. eauto. }
  destruct S as (body' & interp' & ->).
  destruct (status_eqb (t_status t1) Modified) eqn:Em.
  - destruct Hk as [-> | ->]; intros H; inversion H; subst; rewrite Em; eauto.
  - intros H; inversion H; subst. rewrite Em. eauto.
Qed.

Lemma program_visit_tag c fuel prog ast t :
  program_visit c fuel prog = Some (ast, t) -> tag_of ast = tag_of prog.
Proof.
  unfold program_visit. destruct prog as [[k lo hi| | | | | |] cs]; try discriminate.
  destruct (map_st (block_visit c fuel) cs t_init) as [[cs' t1]|]; [|discriminate].
  destruct (status_eqb (t_status t1) Modified).
  - destruct k; try (intros H; inversion H; reflexivity);
      destruct cs' as [|[[| | | | | |] body] [|interp [|? ?]]]; intros H; inversion H; reflexivity.
  - intros H; inversion H; reflexivity.
Qed.

(** [rewrite] never returns a cancelled status as a result: it is an error with the diagnostic. *)
Lemma rewrite_ok_status c file prog ast t :
  rewrite c file prog = OutOk ast t -> t_status t = Modified \/ t_status t = NotModified.
Proof.
  unfold rewrite. destruct (program_visit c (default_fuel prog) prog) as [[a t1]|]; [|discriminate].
  destruct (t_status t1) eqn:E; intros H; inversion H; subst; auto.
Qed.

Lemma rewrite_err_cancelled c file prog msg :
  rewrite c file prog = OutErr msg ->
  exists ast t, program_visit c (default_fuel prog) prog = Some (ast, t) /\ t_status t = Cancelled.
Proof.
  unfold rewrite. destruct (program_visit c (default_fuel prog) prog) as [[a t1]|]; [|discriminate].
  destruct (t_status t1) eqn:E; intros H; inversion H; subst; eauto.
Qed.
