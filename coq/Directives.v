(** * C07 -- directive prologues (specification side; no reference to the rewriter).

    The directive prologue of a statement list is its maximal prefix of expression statements
    that are bare string literals.  [directives_ok] compares, for the program body and for every
    block of the output that carries a source span, the prologue with that of the input block of
    the same span, and checks that injected statements (the temporaries' [let], the file
    prologue) come immediately after it and that nothing else precedes the first original
    non-directive statement. *)
From Coq Require Import String List NArith Bool.
From IastRw Require Import Ast.
Import ListNotations.
Local Open Scope string_scope.
Local Open Scope list_scope.

Definition is_directive (stmt : node) : bool :=
  match stmt with
  | Node (K KExprStmt _ _) [Node (K KStr _ _) _] => true
  | _ => false
  end.

Fixpoint directives_of (stmts : list node) : list node :=
  match stmts with
  | s :: rest => if is_directive s then s :: directives_of rest else []
  | [] => []
  end.

Fixpoint after_directives (stmts : list node) : list node :=
  match stmts with
  | s :: rest => if is_directive s then after_directives rest else stmts
  | [] => []
  end.

Lemma directives_split stmts : stmts = directives_of stmts ++ after_directives stmts.
Proof.
  induction stmts as [|s rest IH]; simpl; [reflexivity|].
  destruct (is_directive s); simpl; [f_equal; exact IH | reflexivity].
Qed.

Fixpoint list_eqb (a b : list node) : bool :=
  match a, b with
  | [], [] => true
  | x :: a', y :: b' => node_eqb x y && list_eqb a' b'
  | _, _ => false
  end.

(** An injected [let]: every declarator binds an identifier with the reserved prefix, no initializer. *)
Definition is_injected_let (vp : string) (stmt : node) : bool :=
  match stmt with
  | Node (K KVarDecl _ _) [_; Node (Str "let") []; _; Node Lst decls] =>
      match decls with
      | [] => false
      | _ => forallb (fun d => match d with
                               | Node (K KVarDeclarator _ _) [id; Node Nul []; _] =>
                                   match ident_sym id with
                                   | Some s => String.prefix vp s
                                   | None => false
                                   end
                               | _ => false
                               end) decls
      end
  | _ => false
  end.

(** Drop what the rewriter may inject right after the directives: the prologue statements
    (exactly those of the configuration, in order) and one [let]. *)
Fixpoint strip_prefix (pre : list node) (stmts : list node) : option (list node) :=
  match pre, stmts with
  | [], _ => Some stmts
  | p :: pre', s :: rest => if node_eqb p s then strip_prefix pre' rest else None
  | _ :: _, [] => None
  end.

Definition strip_injected (vp : string) (prologue : list node) (stmts : list node) : list node :=
  let stmts1 := match prologue with
                | [] => stmts
                | _ => match strip_prefix prologue stmts with Some r => r | None => stmts end
                end in
  match stmts1 with
  | s :: rest => if is_injected_let vp s then rest else stmts1
  | [] => []
  end.

Definition first_span (stmts : list node) : option sp :=
  match stmts with s :: _ => Some (span_of s) | [] => None end.

Definition opt_span_eqb (a b : option sp) : bool :=
  match a, b with
  | None, None => true
  | Some x, Some y => N.eqb (fst x) (fst y) && N.eqb (snd x) (snd y)
  | _, _ => false
  end.

(** One statement list against its original. *)
Definition stmts_dir_ok (vp : string) (prologue : list node) (ins outs : list node) : bool :=
  list_eqb (directives_of ins) (directives_of outs)
  && let rest_out := strip_injected vp prologue (after_directives outs) in
     let rest_in := after_directives ins in
     Nat.eqb (length rest_in) (length rest_out)
     && opt_span_eqb (first_span rest_in) (first_span rest_out)
     (* no injected let may remain deeper in the list: it must be the first thing after the directives *)
     && negb (existsb (is_injected_let vp) rest_out).

(** All blocks that carry a source span, with their statements. *)
Fixpoint blocks_of (n : node) : list (sp * list node) :=
  match n with
  | Node t cs =>
      (match t, cs with
       | K KBlock lo hi, [_; Node Lst stmts] =>
           if is_dummy (lo, hi) then [] else [((lo, hi), stmts)]
       | _, _ => []
       end) ++
      (fix go (l : list node) : list (sp * list node) :=
         match l with [] => [] | c :: l' => blocks_of c ++ go l' end) cs
  end.

Fixpoint find_block (s : sp) (tbl : list (sp * list node)) : option (list node) :=
  match tbl with
  | [] => None
  | (s', stmts) :: rest =>
      if N.eqb (fst s) (fst s') && N.eqb (snd s) (snd s') then Some stmts else find_block s rest
  end.

Definition program_body (p : node) : list node :=
  match p with
  | Node (K _ _ _) (Node Lst body :: _) => body
  | _ => []
  end.

Definition blocks_of_list (l : list node) : list (sp * list node) :=
  flat_map blocks_of l.

(** [modified]: whether the prologue is expected at file level.  The prologue's own blocks
    (they carry positions of another file) are not blocks of the program. *)
Definition directives_ok (vp : string) (prologue : list node) (modified : bool) (pin pout : node) : bool :=
  let pro := if modified then prologue else [] in
  let out_body := program_body pout in
  let out_rest := match pro with
                  | [] => after_directives out_body
                  | _ => match strip_prefix pro (after_directives out_body) with
                         | Some r => r
                         | None => after_directives out_body
                         end
                  end in
  stmts_dir_ok vp pro (program_body pin) out_body
  && let tin := blocks_of pin in
     let tout := blocks_of_list out_rest in
     forallb (fun b => match find_block (fst b) tin with
                       | Some ins => stmts_dir_ok vp [] ins (snd b)
                       | None => false      (* a spanned block of the output must come from the input *)
                       end) tout
  && forallb (fun b => match find_block (fst b) tout with
                       | Some _ => true
                       | None => false      (* no block of the input disappears *)
                       end) tin.
