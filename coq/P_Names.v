(** * C05 -- only configured replacement names are ever dereferenced on the hook namespace.
    The measure [badname ok] weighs a member expression [_ddiast.<name>] by whether [name] is acceptable
    (and [_ddiast[..]] as unacceptable); everything else weighs nothing.  It is an instance of the generic
    additive measure of HookSites.v, so the global theorem of P_CountGlobal.v applies: over the whole
    traversal, whatever is built on the hook namespace is built with a configured name. *)
From Coq Require Import String List NArith Bool Lia.
From IastRw Require Import Ast Generated Config ToConfig Model HookSites WfTree P_OpVisit P_Config P_Hooks P_Count P_CountGlobal.
Import ListNotations.

Section Names.
  Variable ok : string -> bool.

  (** A tree without any reference to the namespace weighs nothing. *)
  Lemma badname_no_reference : forall n, ns_count n = 0 -> badname ok n = 0.
  Proof.
    apply (node_ind' (fun n => ns_count n = 0 -> badname ok n = 0)). intros t cs IH Z.
    unfold badname. cbn [meas].
    destruct (is_ident (Node t cs)) eqn:I; [destruct (is_ns_ident (Node t cs)); reflexivity|].
    destruct (leaf (Node t cs)) eqn:Lf; [reflexivity|].
    assert (P : plain (Node t cs) = true) by (unfold plain; rewrite I, Lf; reflexivity).
    assert (ZL : meas_list (stop_names ok) 0 cs = 0).
    { pose proof (ns_zero_children _ _ P Z) as ZC. clear -IH ZC.
      induction cs as [|x r IHr]; [reflexivity|]. inversion IH; inversion ZC; subst.
      cbn [meas_list fold_right]. fold (meas_list (stop_names ok) 0 r).
      rewrite IHr by assumption. unfold badname in *. rewrite H1 by assumption. reflexivity. }
    destruct (stop_kind (Node t cs)); [|exact ZL].
    unfold stop_names. destruct (is_ns_member (Node t cs)) eqn:M; [|exact ZL]. exfalso.
    destruct t as [k lo hi| | | | | |]; try discriminate M. destruct k; try discriminate M.
    destruct cs as [|obj rest]; [discriminate M|]. cbn in M. rewrite (ns_zero_member _ _ _ _ Z) in M. discriminate M.
  Qed.

  Lemma badname_good n : good n -> badname ok n = 0.
  Proof. intros [_ Z]. apply badname_no_reference. exact Z. Qed.

  Lemma badname_arrow n : good n -> badname ok (arrow_transform n) = 0.
  Proof. intros [_ Z]. apply badname_no_reference. rewrite arrow_transform_ns. exact Z. Qed.

  (** A hook callee built with an acceptable name weighs nothing. *)
  Lemma badname_callee name span : ok name = true -> badname ok (dd_callee name span) = 0.
  Proof. intros H. unfold badname, dd_callee, mk_member, mk_ident, mk_ident_name, mk. cbn. rewrite H. reflexivity. Qed.

  (** The operation visitor: when the configured names are acceptable, the visited tree dereferences the
      namespace with acceptable names only -- for every configuration (every verbosity), every fuel, every
      well-formed tree of the fragment that does not mention the namespace. *)
  Theorem op_visit_names c :
    (plus_enabled c = true -> ok (plus_name c) = true) ->
    (tpl_enabled c = true -> ok (tpl_name c) = true) ->
    (forall name m, csi_get c name = Some m -> ok (m_dst m) = true) ->
    forall fuel root n s n' s',
      op_visit c fuel root n s = Some (n', s') -> good n -> live s -> badname ok n' = 0.
  Proof.
    intros Hp Ht Hc fuel root n s n' s' H G L.
    destruct (op_visit_count (stop_names ok) 0 badname_good badname_arrow
                (fun name => ok name = true) badname_callee c (or_introl eq_refl) Hp Ht Hc _ _ _ _ _ _ H G L) as [A _].
    change (N.of_nat 0) with 0%N in A. rewrite !N.mul_0_l in A. unfold badname. lia.
  Qed.
End Names.

Lemma configured_in c name : In name (configured_dsts c) -> configured c name = true.
Proof.
  intros H. unfold configured. apply existsb_exists. exists name. split; [exact H | apply String.eqb_refl].
Qed.

Theorem op_visit_configured_names c : forall fuel root n s n' s',
  op_visit c fuel root n s = Some (n', s') -> good n -> live s -> badname (configured c) n' = 0.
Proof.
  apply op_visit_names.
  - intros H. apply configured_in. apply plus_name_configured. exact H.
  - intros H. apply configured_in. apply tpl_name_configured. exact H.
  - intros name m H. apply configured_in. apply (csi_get_configured c name m H).
Qed.

(** What weighing nothing means: every member expression on the namespace, anywhere in the tree (nested blocks
    and functions included), has an acceptable static name. *)
Lemma ident_name_leaf prop x : ident_name_sym prop = Some x -> leaf prop = true.
Proof.
  unfold ident_name_sym. destruct prop as [[k lo hi| | | | | |] pcs]; try discriminate.
  destruct k; try discriminate. reflexivity.
Qed.

Lemma ns_members_leafish n : is_ident n || leaf n = true -> ns_members n = [].
Proof. destruct n as [t cs]. intros H. cbn [ns_members]. rewrite H. reflexivity. Qed.

Theorem badname_zero_members ok : forall n, badname ok n = 0 ->
  Forall (fun m => name_weight ok m = 0) (ns_members n).
Proof.
  apply (node_ind' (fun n => badname ok n = 0 -> Forall (fun m => name_weight ok m = 0) (ns_members n))).
  intros t cs IH Z. cbn [ns_members]. unfold badname in Z. cbn [meas] in Z.
  destruct (is_ident (Node t cs)) eqn:I; [constructor|].
  destruct (leaf (Node t cs)) eqn:Lf; [constructor|]. cbn [orb].
  assert (SUM : meas_list (stop_names ok) 0 cs = 0 ->
                Forall (fun m => name_weight ok m = 0)
                  ((fix go (l : list node) : list node := match l with [] => [] | c :: l' => ns_members c ++ go l' end) cs)).
  { clear -IH. induction cs as [|x r IHr]; intros S; [constructor|].
    inversion IH; subst. cbn [meas_list fold_right] in S. fold (meas_list (stop_names ok) 0 r) in S.
    apply Forall_app. split; [apply H1; unfold badname; lia | apply IHr; [assumption | lia]]. }
  destruct (is_ns_member (Node t cs)) eqn:M.
  - assert (SK : stop_kind (Node t cs) = true) by (unfold stop_kind; rewrite M; apply orb_true_r).
    rewrite SK in Z. unfold stop_names in Z. rewrite M in Z.
    constructor; [exact Z|].
    (* weight zero: [_ddiast.<name>] exactly, whose two children are an identifier and a property name *)
    destruct t as [k lo hi| | | | | |]; try discriminate M. destruct k; try discriminate M.
    destruct cs as [|obj [|prop [|? ?]]]; try discriminate Z. cbn in M. cbn [name_weight] in Z.
    destruct (ident_name_sym prop) as [x|] eqn:Ep; [|discriminate Z].
    rewrite (ns_members_leafish obj) by (rewrite (ns_ident_is_ident _ M); reflexivity).
    rewrite (ns_members_leafish prop) by (rewrite (ident_name_leaf _ _ Ep); apply orb_true_r).
    constructor.
  - cbn [app]. apply SUM. destruct (stop_kind (Node t cs)); [|exact Z].
    unfold stop_names in Z. rewrite M in Z. exact Z.
Qed.

Lemma name_weight_zero ok m : name_weight ok m = 0 ->
  exists lo hi obj prop name, m = Node (K KMember lo hi) [obj; prop] /\ ident_name_sym prop = Some name /\ ok name = true.
Proof.
  destruct m as [[k lo hi| | | | | |] cs]; try discriminate. destruct k; try discriminate.
  destruct cs as [|obj [|prop [|? ?]]]; try discriminate. cbn [name_weight].
  destruct (ident_name_sym prop) as [x|] eqn:E; [|discriminate].
  destruct (ok x) eqn:O; [|discriminate]. intros _. exists lo, hi, obj, prop, x. auto.
Qed.

Lemma configured_inv c name : configured c name = true -> In name (configured_dsts c).
Proof.
  unfold configured. intros H. apply existsb_exists in H. destruct H as (x & Hx & E).
  apply String.eqb_eq in E. subst. exact Hx.
Qed.

(** Readable form: every member expression on the hook namespace in the visited tree is [_ddiast.<name>] with
    [name] one of the configured replacement names. *)
Theorem op_visit_only_configured c : forall fuel root n s n' s',
  op_visit c fuel root n s = Some (n', s') -> good n -> live s ->
  Forall (fun m => exists lo hi obj prop name,
            m = Node (K KMember lo hi) [obj; prop] /\ ident_name_sym prop = Some name /\
            In name (configured_dsts c)) (ns_members n').
Proof.
  intros fuel root n s n' s' H G L.
  pose proof (badname_zero_members _ _ (op_visit_configured_names c _ _ _ _ _ _ H G L)) as F.
  eapply Forall_impl; [|exact F]. intros m Hm.
  destruct (name_weight_zero _ _ Hm) as (lo & hi & obj & prop & name & E1 & E2 & E3).
  exists lo, hi, obj, prop, name. repeat split; try assumption. apply configured_inv. exact E3.
Qed.
