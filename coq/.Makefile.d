Ast.vo Ast.glob Ast.v.beautified Ast.required_vo: Ast.v 
Ast.vio: Ast.v 
Ast.vos Ast.vok Ast.required_vos: Ast.v 
Comments.vo Comments.glob Comments.v.beautified Comments.required_vo: Comments.v Generated.vo
Comments.vio: Comments.v Generated.vio
Comments.vos Comments.vok Comments.required_vos: Comments.v Generated.vos
Config.vo Config.glob Config.v.beautified Config.required_vo: Config.v Ast.vo Generated.vo
Config.vio: Config.v Ast.vio Generated.vio
Config.vos Config.vok Config.required_vos: Config.v Ast.vos Generated.vos
Directives.vo Directives.glob Directives.v.beautified Directives.required_vo: Directives.v Ast.vo
Directives.vio: Directives.v Ast.vio
Directives.vos Directives.vok Directives.required_vos: Directives.v Ast.vos
Erase.vo Erase.glob Erase.v.beautified Erase.required_vo: Erase.v Ast.vo Generated.vo HookSites.vo Directives.vo
Erase.vio: Erase.v Ast.vio Generated.vio HookSites.vio Directives.vio
Erase.vos Erase.vok Erase.required_vos: Erase.v Ast.vos Generated.vos HookSites.vos Directives.vos
Extract.vo Extract.glob Extract.v.beautified Extract.required_vo: Extract.v Ast.vo Generated.vo Config.vo ToConfig.vo SrcMap.vo Literals.vo Model.vo HookSites.vo Known.vo Directives.vo Erase.vo Sites.vo Hygiene.vo Shapes.vo Order.vo WfTree.vo Sem.vo SemTie.vo
Extract.vio: Extract.v Ast.vio Generated.vio Config.vio ToConfig.vio SrcMap.vio Literals.vio Model.vio HookSites.vio Known.vio Directives.vio Erase.vio Sites.vio Hygiene.vio Shapes.vio Order.vio WfTree.vio Sem.vio SemTie.vio
Extract.vos Extract.vok Extract.required_vos: Extract.v Ast.vos Generated.vos Config.vos ToConfig.vos SrcMap.vos Literals.vos Model.vos HookSites.vos Known.vos Directives.vos Erase.vos Sites.vos Hygiene.vos Shapes.vos Order.vos WfTree.vos Sem.vos SemTie.vos
Generated.vo Generated.glob Generated.v.beautified Generated.required_vo: Generated.v 
Generated.vio: Generated.v 
Generated.vos Generated.vok Generated.required_vos: Generated.v 
HookSites.vo HookSites.glob HookSites.v.beautified HookSites.required_vo: HookSites.v Ast.vo Generated.vo
HookSites.vio: HookSites.v Ast.vio Generated.vio
HookSites.vos HookSites.vok HookSites.required_vos: HookSites.v Ast.vos Generated.vos
Hygiene.vo Hygiene.glob Hygiene.v.beautified Hygiene.required_vo: Hygiene.v Ast.vo Generated.vo Directives.vo Erase.vo
Hygiene.vio: Hygiene.v Ast.vio Generated.vio Directives.vio Erase.vio
Hygiene.vos Hygiene.vok Hygiene.required_vos: Hygiene.v Ast.vos Generated.vos Directives.vos Erase.vos
JsSide.vo JsSide.glob JsSide.v.beautified JsSide.required_vo: JsSide.v SrcMap.vo
JsSide.vio: JsSide.v SrcMap.vio
JsSide.vos JsSide.vok JsSide.required_vos: JsSide.v SrcMap.vos
Known.vo Known.glob Known.v.beautified Known.required_vo: Known.v Ast.vo Generated.vo
Known.vio: Known.v Ast.vio Generated.vio
Known.vos Known.vok Known.required_vos: Known.v Ast.vos Generated.vos
Literals.vo Literals.glob Literals.v.beautified Literals.required_vo: Literals.v Ast.vo Generated.vo
Literals.vio: Literals.v Ast.vio Generated.vio
Literals.vos Literals.vok Literals.required_vos: Literals.v Ast.vos Generated.vos
Model.vo Model.glob Model.v.beautified Model.required_vo: Model.v Ast.vo Generated.vo Config.vo
Model.vio: Model.v Ast.vio Generated.vio Config.vio
Model.vos Model.vok Model.required_vos: Model.v Ast.vos Generated.vos Config.vos
Order.vo Order.glob Order.v.beautified Order.required_vo: Order.v Ast.vo Generated.vo HookSites.vo Erase.vo
Order.vio: Order.v Ast.vio Generated.vio HookSites.vio Erase.vio
Order.vos Order.vok Order.required_vos: Order.v Ast.vos Generated.vos HookSites.vos Erase.vos
P_Comments.vo P_Comments.glob P_Comments.v.beautified P_Comments.required_vo: P_Comments.v Generated.vo Comments.vo
P_Comments.vio: P_Comments.v Generated.vio Comments.vio
P_Comments.vos P_Comments.vok P_Comments.required_vos: P_Comments.v Generated.vos Comments.vos
P_Config.vo P_Config.glob P_Config.v.beautified P_Config.required_vo: P_Config.v Ast.vo Generated.vo Config.vo ToConfig.vo Model.vo
P_Config.vio: P_Config.v Ast.vio Generated.vio Config.vio ToConfig.vio Model.vio
P_Config.vos P_Config.vok P_Config.required_vos: P_Config.v Ast.vos Generated.vos Config.vos ToConfig.vos Model.vos
P_Count.vo P_Count.glob P_Count.v.beautified P_Count.required_vo: P_Count.v Ast.vo Generated.vo Config.vo Model.vo HookSites.vo P_OpVisit.vo P_Local.vo
P_Count.vio: P_Count.v Ast.vio Generated.vio Config.vio Model.vio HookSites.vio P_OpVisit.vio P_Local.vio
P_Count.vos P_Count.vok P_Count.required_vos: P_Count.v Ast.vos Generated.vos Config.vos Model.vos HookSites.vos P_OpVisit.vos P_Local.vos
P_CountGlobal.vo P_CountGlobal.glob P_CountGlobal.v.beautified P_CountGlobal.required_vo: P_CountGlobal.v Ast.vo Generated.vo Config.vo Model.vo HookSites.vo WfTree.vo P_OpVisit.vo P_Kinds.vo P_Telemetry.vo P_Count.vo
P_CountGlobal.vio: P_CountGlobal.v Ast.vio Generated.vio Config.vio Model.vio HookSites.vio WfTree.vio P_OpVisit.vio P_Kinds.vio P_Telemetry.vio P_Count.vio
P_CountGlobal.vos P_CountGlobal.vok P_CountGlobal.required_vos: P_CountGlobal.v Ast.vos Generated.vos Config.vos Model.vos HookSites.vos WfTree.vos P_OpVisit.vos P_Kinds.vos P_Telemetry.vos P_Count.vos
P_CountProgram.vo P_CountProgram.glob P_CountProgram.v.beautified P_CountProgram.required_vo: P_CountProgram.v Ast.vo Generated.vo Config.vo Model.vo HookSites.vo WfTree.vo P_OpVisit.vo P_Kinds.vo P_Telemetry.vo P_Count.vo P_CountGlobal.vo P_Program.vo
P_CountProgram.vio: P_CountProgram.v Ast.vio Generated.vio Config.vio Model.vio HookSites.vio WfTree.vio P_OpVisit.vio P_Kinds.vio P_Telemetry.vio P_Count.vio P_CountGlobal.vio P_Program.vio
P_CountProgram.vos P_CountProgram.vok P_CountProgram.required_vos: P_CountProgram.v Ast.vos Generated.vos Config.vos Model.vos HookSites.vos WfTree.vos P_OpVisit.vos P_Kinds.vos P_Telemetry.vos P_Count.vos P_CountGlobal.vos P_Program.vos
P_Directives.vo P_Directives.glob P_Directives.v.beautified P_Directives.required_vo: P_Directives.v Ast.vo Generated.vo Config.vo Model.vo Directives.vo P_OpVisit.vo P_Kinds.vo
P_Directives.vio: P_Directives.v Ast.vio Generated.vio Config.vio Model.vio Directives.vio P_OpVisit.vio P_Kinds.vio
P_Directives.vos P_Directives.vok P_Directives.required_vos: P_Directives.v Ast.vos Generated.vos Config.vos Model.vos Directives.vos P_OpVisit.vos P_Kinds.vos
P_Erase.vo P_Erase.glob P_Erase.v.beautified P_Erase.required_vo: P_Erase.v Ast.vo Generated.vo Config.vo Model.vo HookSites.vo Directives.vo Erase.vo
P_Erase.vio: P_Erase.v Ast.vio Generated.vio Config.vio Model.vio HookSites.vio Directives.vio Erase.vio
P_Erase.vos P_Erase.vok P_Erase.required_vos: P_Erase.v Ast.vos Generated.vos Config.vos Model.vos HookSites.vos Directives.vos Erase.vos
P_Hoist.vo P_Hoist.glob P_Hoist.v.beautified P_Hoist.required_vo: P_Hoist.v Ast.vo Generated.vo Config.vo Model.vo
P_Hoist.vio: P_Hoist.v Ast.vio Generated.vio Config.vio Model.vio
P_Hoist.vos P_Hoist.vok P_Hoist.required_vos: P_Hoist.v Ast.vos Generated.vos Config.vos Model.vos
P_Hooks.vo P_Hooks.glob P_Hooks.v.beautified P_Hooks.required_vo: P_Hooks.v Ast.vo Generated.vo Config.vo Model.vo HookSites.vo Erase.vo Shapes.vo
P_Hooks.vio: P_Hooks.v Ast.vio Generated.vio Config.vio Model.vio HookSites.vio Erase.vio Shapes.vio
P_Hooks.vos P_Hooks.vok P_Hooks.required_vos: P_Hooks.v Ast.vos Generated.vos Config.vos Model.vos HookSites.vos Erase.vos Shapes.vos
P_Inert.vo P_Inert.glob P_Inert.v.beautified P_Inert.required_vo: P_Inert.v Ast.vo Generated.vo Config.vo Model.vo P_OpVisit.vo
P_Inert.vio: P_Inert.v Ast.vio Generated.vio Config.vio Model.vio P_OpVisit.vio
P_Inert.vos P_Inert.vok P_Inert.required_vos: P_Inert.v Ast.vos Generated.vos Config.vos Model.vos P_OpVisit.vos
P_JsSide.vo P_JsSide.glob P_JsSide.v.beautified P_JsSide.required_vo: P_JsSide.v SrcMap.vo JsSide.vo
P_JsSide.vio: P_JsSide.v SrcMap.vio JsSide.vio
P_JsSide.vos P_JsSide.vok P_JsSide.required_vos: P_JsSide.v SrcMap.vos JsSide.vos
P_Kinds.vo P_Kinds.glob P_Kinds.v.beautified P_Kinds.required_vo: P_Kinds.v Ast.vo Generated.vo Config.vo Model.vo P_OpVisit.vo
P_Kinds.vio: P_Kinds.v Ast.vio Generated.vio Config.vio Model.vio P_OpVisit.vio
P_Kinds.vos P_Kinds.vok P_Kinds.required_vos: P_Kinds.v Ast.vos Generated.vos Config.vos Model.vos P_OpVisit.vos
P_Literals.vo P_Literals.glob P_Literals.v.beautified P_Literals.required_vo: P_Literals.v Ast.vo Generated.vo Literals.vo
P_Literals.vio: P_Literals.v Ast.vio Generated.vio Literals.vio
P_Literals.vos P_Literals.vok P_Literals.required_vos: P_Literals.v Ast.vos Generated.vos Literals.vos
P_Local.vo P_Local.glob P_Local.v.beautified P_Local.required_vo: P_Local.v Ast.vo Generated.vo Config.vo Model.vo HookSites.vo Erase.vo Shapes.vo P_Hooks.vo
P_Local.vio: P_Local.v Ast.vio Generated.vio Config.vio Model.vio HookSites.vio Erase.vio Shapes.vio P_Hooks.vio
P_Local.vos P_Local.vok P_Local.required_vos: P_Local.v Ast.vos Generated.vos Config.vos Model.vos HookSites.vos Erase.vos Shapes.vos P_Hooks.vos
P_Names.vo P_Names.glob P_Names.v.beautified P_Names.required_vo: P_Names.v Ast.vo Generated.vo Config.vo ToConfig.vo Model.vo HookSites.vo WfTree.vo P_OpVisit.vo P_Config.vo P_Hooks.vo P_Count.vo P_CountGlobal.vo
P_Names.vio: P_Names.v Ast.vio Generated.vio Config.vio ToConfig.vio Model.vio HookSites.vio WfTree.vio P_OpVisit.vio P_Config.vio P_Hooks.vio P_Count.vio P_CountGlobal.vio
P_Names.vos P_Names.vok P_Names.required_vos: P_Names.v Ast.vos Generated.vos Config.vos ToConfig.vos Model.vos HookSites.vos WfTree.vos P_OpVisit.vos P_Config.vos P_Hooks.vos P_Count.vos P_CountGlobal.vos
P_NamesProgram.vo P_NamesProgram.glob P_NamesProgram.v.beautified P_NamesProgram.required_vo: P_NamesProgram.v Ast.vo Generated.vo Config.vo ToConfig.vo Model.vo HookSites.vo WfTree.vo P_OpVisit.vo P_Kinds.vo P_Telemetry.vo P_Config.vo P_Hooks.vo P_Program.vo P_Count.vo P_CountGlobal.vo P_CountProgram.vo P_Names.vo
P_NamesProgram.vio: P_NamesProgram.v Ast.vio Generated.vio Config.vio ToConfig.vio Model.vio HookSites.vio WfTree.vio P_OpVisit.vio P_Kinds.vio P_Telemetry.vio P_Config.vio P_Hooks.vio P_Program.vio P_Count.vio P_CountGlobal.vio P_CountProgram.vio P_Names.vio
P_NamesProgram.vos P_NamesProgram.vok P_NamesProgram.required_vos: P_NamesProgram.v Ast.vos Generated.vos Config.vos ToConfig.vos Model.vos HookSites.vos WfTree.vos P_OpVisit.vos P_Kinds.vos P_Telemetry.vos P_Config.vos P_Hooks.vos P_Program.vos P_Count.vos P_CountGlobal.vos P_CountProgram.vos P_Names.vos
P_OpVisit.vo P_OpVisit.glob P_OpVisit.v.beautified P_OpVisit.required_vo: P_OpVisit.v Ast.vo Generated.vo Config.vo Model.vo
P_OpVisit.vio: P_OpVisit.v Ast.vio Generated.vio Config.vio Model.vio
P_OpVisit.vos P_OpVisit.vok P_OpVisit.required_vos: P_OpVisit.v Ast.vos Generated.vos Config.vos Model.vos
P_OptCall.vo P_OptCall.glob P_OptCall.v.beautified P_OptCall.required_vo: P_OptCall.v Ast.vo Generated.vo Config.vo Model.vo P_Local.vo
P_OptCall.vio: P_OptCall.v Ast.vio Generated.vio Config.vio Model.vio P_Local.vio
P_OptCall.vos P_OptCall.vok P_OptCall.required_vos: P_OptCall.v Ast.vos Generated.vos Config.vos Model.vos P_Local.vos
P_Partial.vo P_Partial.glob P_Partial.v.beautified P_Partial.required_vo: P_Partial.v Ast.vo Generated.vo Config.vo Model.vo Partial.vo
P_Partial.vio: P_Partial.v Ast.vio Generated.vio Config.vio Model.vio Partial.vio
P_Partial.vos P_Partial.vok P_Partial.required_vos: P_Partial.v Ast.vos Generated.vos Config.vos Model.vos Partial.vos
P_Program.vo P_Program.glob P_Program.v.beautified P_Program.required_vo: P_Program.v Ast.vo Generated.vo Config.vo Model.vo
P_Program.vio: P_Program.v Ast.vio Generated.vio Config.vio Model.vio
P_Program.vos P_Program.vok P_Program.required_vos: P_Program.v Ast.vos Generated.vos Config.vos Model.vos
P_Sem.vo P_Sem.glob P_Sem.v.beautified P_Sem.required_vo: P_Sem.v Sem.vo
P_Sem.vio: P_Sem.v Sem.vio
P_Sem.vos P_Sem.vok P_Sem.required_vos: P_Sem.v Sem.vos
P_SrcMap.vo P_SrcMap.glob P_SrcMap.v.beautified P_SrcMap.required_vo: P_SrcMap.v SrcMap.vo
P_SrcMap.vio: P_SrcMap.v SrcMap.vio
P_SrcMap.vos P_SrcMap.vok P_SrcMap.required_vos: P_SrcMap.v SrcMap.vos
P_Status.vo P_Status.glob P_Status.v.beautified P_Status.required_vo: P_Status.v Ast.vo Generated.vo Config.vo Model.vo HookSites.vo WfTree.vo P_OpVisit.vo P_Telemetry.vo P_Program.vo P_Count.vo P_CountGlobal.vo P_CountProgram.vo
P_Status.vio: P_Status.v Ast.vio Generated.vio Config.vio Model.vio HookSites.vio WfTree.vio P_OpVisit.vio P_Telemetry.vio P_Program.vio P_Count.vio P_CountGlobal.vio P_CountProgram.vio
P_Status.vos P_Status.vok P_Status.required_vos: P_Status.v Ast.vos Generated.vos Config.vos Model.vos HookSites.vos WfTree.vos P_OpVisit.vos P_Telemetry.vos P_Program.vos P_Count.vos P_CountGlobal.vos P_CountProgram.vos
P_Telemetry.vo P_Telemetry.glob P_Telemetry.v.beautified P_Telemetry.required_vo: P_Telemetry.v Ast.vo Generated.vo Config.vo Model.vo
P_Telemetry.vio: P_Telemetry.v Ast.vio Generated.vio Config.vio Model.vio
P_Telemetry.vos P_Telemetry.vok P_Telemetry.required_vos: P_Telemetry.v Ast.vos Generated.vos Config.vos Model.vos
Partial.vo Partial.glob Partial.v.beautified Partial.required_vo: Partial.v Ast.vo Generated.vo Config.vo Model.vo
Partial.vio: Partial.v Ast.vio Generated.vio Config.vio Model.vio
Partial.vos Partial.vok Partial.required_vos: Partial.v Ast.vos Generated.vos Config.vos Model.vos
Sem.vo Sem.glob Sem.v.beautified Sem.required_vo: Sem.v 
Sem.vio: Sem.v 
Sem.vos Sem.vok Sem.required_vos: Sem.v 
SemTie.vo SemTie.glob SemTie.v.beautified SemTie.required_vo: SemTie.v Ast.vo Generated.vo Model.vo HookSites.vo Sem.vo
SemTie.vio: SemTie.v Ast.vio Generated.vio Model.vio HookSites.vio Sem.vio
SemTie.vos SemTie.vok SemTie.required_vos: SemTie.v Ast.vos Generated.vos Model.vos HookSites.vos Sem.vos
Shapes.vo Shapes.glob Shapes.v.beautified Shapes.required_vo: Shapes.v Ast.vo Generated.vo HookSites.vo Erase.vo
Shapes.vio: Shapes.v Ast.vio Generated.vio HookSites.vio Erase.vio
Shapes.vos Shapes.vok Shapes.required_vos: Shapes.v Ast.vos Generated.vos HookSites.vos Erase.vos
Sites.vo Sites.glob Sites.v.beautified Sites.required_vo: Sites.v Ast.vo Generated.vo HookSites.vo
Sites.vio: Sites.v Ast.vio Generated.vio HookSites.vio
Sites.vos Sites.vok Sites.required_vos: Sites.v Ast.vos Generated.vos HookSites.vos
SrcMap.vo SrcMap.glob SrcMap.v.beautified SrcMap.required_vo: SrcMap.v 
SrcMap.vio: SrcMap.v 
SrcMap.vos SrcMap.vok SrcMap.required_vos: SrcMap.v 
ToConfig.vo ToConfig.glob ToConfig.v.beautified ToConfig.required_vo: ToConfig.v Ast.vo Generated.vo Config.vo
ToConfig.vio: ToConfig.v Ast.vio Generated.vio Config.vio
ToConfig.vos ToConfig.vok ToConfig.required_vos: ToConfig.v Ast.vos Generated.vos Config.vos
WfTree.vo WfTree.glob WfTree.v.beautified WfTree.required_vo: WfTree.v Ast.vo Generated.vo
WfTree.vio: WfTree.v Ast.vio Generated.vio
WfTree.vos WfTree.vok WfTree.required_vos: WfTree.v Ast.vos Generated.vos
Properties/C01.vo Properties/C01.glob Properties/C01.v.beautified Properties/C01.required_vo: Properties/C01.v Ast.vo Generated.vo Config.vo Model.vo HookSites.vo Erase.vo Order.vo P_Local.vo P_Hooks.vo Sem.vo P_Sem.vo P_OptCall.vo P_Hoist.vo
Properties/C01.vio: Properties/C01.v Ast.vio Generated.vio Config.vio Model.vio HookSites.vio Erase.vio Order.vio P_Local.vio P_Hooks.vio Sem.vio P_Sem.vio P_OptCall.vio P_Hoist.vio
Properties/C01.vos Properties/C01.vok Properties/C01.required_vos: Properties/C01.v Ast.vos Generated.vos Config.vos Model.vos HookSites.vos Erase.vos Order.vos P_Local.vos P_Hooks.vos Sem.vos P_Sem.vos P_OptCall.vos P_Hoist.vos
Properties/C02.vo Properties/C02.glob Properties/C02.v.beautified Properties/C02.required_vo: Properties/C02.v Ast.vo Generated.vo Config.vo Model.vo HookSites.vo Erase.vo P_Hooks.vo P_Erase.vo
Properties/C02.vio: Properties/C02.v Ast.vio Generated.vio Config.vio Model.vio HookSites.vio Erase.vio P_Hooks.vio P_Erase.vio
Properties/C02.vos Properties/C02.vok Properties/C02.required_vos: Properties/C02.v Ast.vos Generated.vos Config.vos Model.vos HookSites.vos Erase.vos P_Hooks.vos P_Erase.vos
Properties/C03.vo Properties/C03.glob Properties/C03.v.beautified Properties/C03.required_vo: Properties/C03.v Ast.vo Generated.vo Config.vo Model.vo HookSites.vo Erase.vo Shapes.vo P_Hooks.vo P_Local.vo
Properties/C03.vio: Properties/C03.v Ast.vio Generated.vio Config.vio Model.vio HookSites.vio Erase.vio Shapes.vio P_Hooks.vio P_Local.vio
Properties/C03.vos Properties/C03.vok Properties/C03.required_vos: Properties/C03.v Ast.vos Generated.vos Config.vos Model.vos HookSites.vos Erase.vos Shapes.vos P_Hooks.vos P_Local.vos
Properties/C04.vo Properties/C04.glob Properties/C04.v.beautified Properties/C04.required_vo: Properties/C04.v Ast.vo Generated.vo Config.vo Model.vo HookSites.vo Sites.vo P_Hooks.vo P_Local.vo
Properties/C04.vio: Properties/C04.v Ast.vio Generated.vio Config.vio Model.vio HookSites.vio Sites.vio P_Hooks.vio P_Local.vio
Properties/C04.vos Properties/C04.vok Properties/C04.required_vos: Properties/C04.v Ast.vos Generated.vos Config.vos Model.vos HookSites.vos Sites.vos P_Hooks.vos P_Local.vos
Properties/C05.vo Properties/C05.glob Properties/C05.v.beautified Properties/C05.required_vo: Properties/C05.v Ast.vo Generated.vo Config.vo ToConfig.vo Model.vo P_Inert.vo P_Config.vo HookSites.vo WfTree.vo P_CountGlobal.vo P_Names.vo P_NamesProgram.vo
Properties/C05.vio: Properties/C05.v Ast.vio Generated.vio Config.vio ToConfig.vio Model.vio P_Inert.vio P_Config.vio HookSites.vio WfTree.vio P_CountGlobal.vio P_Names.vio P_NamesProgram.vio
Properties/C05.vos Properties/C05.vok Properties/C05.required_vos: Properties/C05.v Ast.vos Generated.vos Config.vos ToConfig.vos Model.vos P_Inert.vos P_Config.vos HookSites.vos WfTree.vos P_CountGlobal.vos P_Names.vos P_NamesProgram.vos
Properties/C06.vo Properties/C06.glob Properties/C06.v.beautified Properties/C06.required_vo: Properties/C06.v Ast.vo Generated.vo Config.vo Model.vo Directives.vo Hygiene.vo P_Local.vo P_Directives.vo Sem.vo P_Sem.vo
Properties/C06.vio: Properties/C06.v Ast.vio Generated.vio Config.vio Model.vio Directives.vio Hygiene.vio P_Local.vio P_Directives.vio Sem.vio P_Sem.vio
Properties/C06.vos Properties/C06.vok Properties/C06.required_vos: Properties/C06.v Ast.vos Generated.vos Config.vos Model.vos Directives.vos Hygiene.vos P_Local.vos P_Directives.vos Sem.vos P_Sem.vos
Properties/C07.vo Properties/C07.glob Properties/C07.v.beautified Properties/C07.required_vo: Properties/C07.v Ast.vo Generated.vo Config.vo Model.vo Directives.vo P_Directives.vo
Properties/C07.vio: Properties/C07.v Ast.vio Generated.vio Config.vio Model.vio Directives.vio P_Directives.vio
Properties/C07.vos Properties/C07.vok Properties/C07.required_vos: Properties/C07.v Ast.vos Generated.vos Config.vos Model.vos Directives.vos P_Directives.vos
Properties/C08.vo Properties/C08.glob Properties/C08.v.beautified Properties/C08.required_vo: Properties/C08.v Ast.vo Generated.vo Config.vo Model.vo P_OpVisit.vo P_Kinds.vo P_Program.vo P_Hooks.vo
Properties/C08.vio: Properties/C08.v Ast.vio Generated.vio Config.vio Model.vio P_OpVisit.vio P_Kinds.vio P_Program.vio P_Hooks.vio
Properties/C08.vos Properties/C08.vok Properties/C08.required_vos: Properties/C08.v Ast.vos Generated.vos Config.vos Model.vos P_OpVisit.vos P_Kinds.vos P_Program.vos P_Hooks.vos
Properties/C09.vo Properties/C09.glob Properties/C09.v.beautified Properties/C09.required_vo: Properties/C09.v SrcMap.vo P_SrcMap.vo
Properties/C09.vio: Properties/C09.v SrcMap.vio P_SrcMap.vio
Properties/C09.vos Properties/C09.vok Properties/C09.required_vos: Properties/C09.v SrcMap.vos P_SrcMap.vos
Properties/C10.vo Properties/C10.glob Properties/C10.v.beautified Properties/C10.required_vo: Properties/C10.v SrcMap.vo P_SrcMap.vo Comments.vo P_Comments.vo
Properties/C10.vio: Properties/C10.v SrcMap.vio P_SrcMap.vio Comments.vio P_Comments.vio
Properties/C10.vos Properties/C10.vok Properties/C10.required_vos: Properties/C10.v SrcMap.vos P_SrcMap.vos Comments.vos P_Comments.vos
Properties/C11.vo Properties/C11.glob Properties/C11.v.beautified Properties/C11.required_vo: Properties/C11.v SrcMap.vo P_SrcMap.vo JsSide.vo P_JsSide.vo
Properties/C11.vio: Properties/C11.v SrcMap.vio P_SrcMap.vio JsSide.vio P_JsSide.vio
Properties/C11.vos Properties/C11.vok Properties/C11.required_vos: Properties/C11.v SrcMap.vos P_SrcMap.vos JsSide.vos P_JsSide.vos
Properties/C12.vo Properties/C12.glob Properties/C12.v.beautified Properties/C12.required_vo: Properties/C12.v Ast.vo Generated.vo Config.vo Model.vo P_Program.vo P_Inert.vo P_Telemetry.vo HookSites.vo WfTree.vo P_Status.vo
Properties/C12.vio: Properties/C12.v Ast.vio Generated.vio Config.vio Model.vio P_Program.vio P_Inert.vio P_Telemetry.vio HookSites.vio WfTree.vio P_Status.vio
Properties/C12.vos Properties/C12.vok Properties/C12.required_vos: Properties/C12.v Ast.vos Generated.vos Config.vos Model.vos P_Program.vos P_Inert.vos P_Telemetry.vos HookSites.vos WfTree.vos P_Status.vos
Properties/C13.vo Properties/C13.glob Properties/C13.v.beautified Properties/C13.required_vo: Properties/C13.v Ast.vo Generated.vo Config.vo Model.vo Partial.vo P_Partial.vo
Properties/C13.vio: Properties/C13.v Ast.vio Generated.vio Config.vio Model.vio Partial.vio P_Partial.vio
Properties/C13.vos Properties/C13.vok Properties/C13.required_vos: Properties/C13.v Ast.vos Generated.vos Config.vos Model.vos Partial.vos P_Partial.vos
Properties/C14.vo Properties/C14.glob Properties/C14.v.beautified Properties/C14.required_vo: Properties/C14.v Ast.vo Generated.vo Literals.vo P_Literals.vo
Properties/C14.vio: Properties/C14.v Ast.vio Generated.vio Literals.vio P_Literals.vio
Properties/C14.vos Properties/C14.vok Properties/C14.required_vos: Properties/C14.v Ast.vos Generated.vos Literals.vos P_Literals.vos
Properties/C15.vo Properties/C15.glob Properties/C15.v.beautified Properties/C15.required_vo: Properties/C15.v Ast.vo Generated.vo Config.vo Model.vo HookSites.vo WfTree.vo P_Telemetry.vo P_Count.vo P_CountGlobal.vo P_CountProgram.vo
Properties/C15.vio: Properties/C15.v Ast.vio Generated.vio Config.vio Model.vio HookSites.vio WfTree.vio P_Telemetry.vio P_Count.vio P_CountGlobal.vio P_CountProgram.vio
Properties/C15.vos Properties/C15.vok Properties/C15.required_vos: Properties/C15.v Ast.vos Generated.vos Config.vos Model.vos HookSites.vos WfTree.vos P_Telemetry.vos P_Count.vos P_CountGlobal.vos P_CountProgram.vos
Properties/C16.vo Properties/C16.glob Properties/C16.v.beautified Properties/C16.required_vo: Properties/C16.v Ast.vo Generated.vo Config.vo Model.vo Comments.vo P_Comments.vo
Properties/C16.vio: Properties/C16.v Ast.vio Generated.vio Config.vio Model.vio Comments.vio P_Comments.vio
Properties/C16.vos Properties/C16.vok Properties/C16.required_vos: Properties/C16.v Ast.vos Generated.vos Config.vos Model.vos Comments.vos P_Comments.vos
