Ast.vo Ast.glob Ast.v.beautified Ast.required_vo: Ast.v 
Ast.vio: Ast.v 
Ast.vos Ast.vok Ast.required_vos: Ast.v 
Generated.vo Generated.glob Generated.v.beautified Generated.required_vo: Generated.v 
Generated.vio: Generated.v 
Generated.vos Generated.vok Generated.required_vos: Generated.v 
Config.vo Config.glob Config.v.beautified Config.required_vo: Config.v Ast.vo Generated.vo
Config.vio: Config.v Ast.vio Generated.vio
Config.vos Config.vok Config.required_vos: Config.v Ast.vos Generated.vos
Model.vo Model.glob Model.v.beautified Model.required_vo: Model.v Ast.vo Generated.vo Config.vo
Model.vio: Model.v Ast.vio Generated.vio Config.vio
Model.vos Model.vok Model.required_vos: Model.v Ast.vos Generated.vos Config.vos
Extract.vo Extract.glob Extract.v.beautified Extract.required_vo: Extract.v Ast.vo Generated.vo Config.vo Model.vo
Extract.vio: Extract.v Ast.vio Generated.vio Config.vio Model.vio
Extract.vos Extract.vok Extract.required_vos: Extract.v Ast.vos Generated.vos Config.vos Model.vos
