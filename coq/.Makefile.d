Ast.vo Ast.glob Ast.v.beautified Ast.required_vo: Ast.v 
Ast.vio: Ast.v 
Ast.vos Ast.vok Ast.required_vos: Ast.v 
Config.vo Config.glob Config.v.beautified Config.required_vo: Config.v Ast.vo Generated.vo
Config.vio: Config.v Ast.vio Generated.vio
Config.vos Config.vok Config.required_vos: Config.v Ast.vos Generated.vos
Directives.vo Directives.glob Directives.v.beautified Directives.required_vo: Directives.v Ast.vo
Directives.vio: Directives.v Ast.vio
Directives.vos Directives.vok Directives.required_vos: Directives.v Ast.vos
Erase.vo Erase.glob Erase.v.beautified Erase.required_vo: Erase.v Ast.vo Generated.vo HookSites.vo Directives.vo
Erase.vio: Erase.v Ast.vio Generated.vio HookSites.vio Directives.vio
Erase.vos Erase.vok Erase.required_vos: Erase.v Ast.vos Generated.vos HookSites.vos Directives.vos
Extract.vo Extract.glob Extract.v.beautified Extract.required_vo: Extract.v Ast.vo Generated.vo Config.vo Model.vo HookSites.vo Known.vo Directives.vo Erase.vo Sites.vo Hygiene.vo Shapes.vo
Extract.vio: Extract.v Ast.vio Generated.vio Config.vio Model.vio HookSites.vio Known.vio Directives.vio Erase.vio Sites.vio Hygiene.vio Shapes.vio
Extract.vos Extract.vok Extract.required_vos: Extract.v Ast.vos Generated.vos Config.vos Model.vos HookSites.vos Known.vos Directives.vos Erase.vos Sites.vos Hygiene.vos Shapes.vos
Generated.vo Generated.glob Generated.v.beautified Generated.required_vo: Generated.v 
Generated.vio: Generated.v 
Generated.vos Generated.vok Generated.required_vos: Generated.v 
HookSites.vo HookSites.glob HookSites.v.beautified HookSites.required_vo: HookSites.v Ast.vo Generated.vo
HookSites.vio: HookSites.v Ast.vio Generated.vio
HookSites.vos HookSites.vok HookSites.required_vos: HookSites.v Ast.vos Generated.vos
Hygiene.vo Hygiene.glob Hygiene.v.beautified Hygiene.required_vo: Hygiene.v Ast.vo Generated.vo Directives.vo Erase.vo
Hygiene.vio: Hygiene.v Ast.vio Generated.vio Directives.vio Erase.vio
Hygiene.vos Hygiene.vok Hygiene.required_vos: Hygiene.v Ast.vos Generated.vos Directives.vos Erase.vos
Known.vo Known.glob Known.v.beautified Known.required_vo: Known.v Ast.vo Generated.vo
Known.vio: Known.v Ast.vio Generated.vio
Known.vos Known.vok Known.required_vos: Known.v Ast.vos Generated.vos
Model.vo Model.glob Model.v.beautified Model.required_vo: Model.v Ast.vo Generated.vo Config.vo
Model.vio: Model.v Ast.vio Generated.vio Config.vio
Model.vos Model.vok Model.required_vos: Model.v Ast.vos Generated.vos Config.vos
P_Telemetry.vo P_Telemetry.glob P_Telemetry.v.beautified P_Telemetry.required_vo: P_Telemetry.v Ast.vo Generated.vo Config.vo Model.vo
P_Telemetry.vio: P_Telemetry.v Ast.vio Generated.vio Config.vio Model.vio
P_Telemetry.vos P_Telemetry.vok P_Telemetry.required_vos: P_Telemetry.v Ast.vos Generated.vos Config.vos Model.vos
Shapes.vo Shapes.glob Shapes.v.beautified Shapes.required_vo: Shapes.v Ast.vo Generated.vo HookSites.vo Erase.vo
Shapes.vio: Shapes.v Ast.vio Generated.vio HookSites.vio Erase.vio
Shapes.vos Shapes.vok Shapes.required_vos: Shapes.v Ast.vos Generated.vos HookSites.vos Erase.vos
Sites.vo Sites.glob Sites.v.beautified Sites.required_vo: Sites.v Ast.vo Generated.vo HookSites.vo
Sites.vio: Sites.v Ast.vio Generated.vio HookSites.vio
Sites.vos Sites.vok Sites.required_vos: Sites.v Ast.vos Generated.vos HookSites.vos
Properties/C15.vo Properties/C15.glob Properties/C15.v.beautified Properties/C15.required_vo: Properties/C15.v Ast.vo Generated.vo Config.vo Model.vo P_Telemetry.vo
Properties/C15.vio: Properties/C15.v Ast.vio Generated.vio Config.vio Model.vio P_Telemetry.vio
Properties/C15.vos Properties/C15.vok Properties/C15.required_vos: Properties/C15.v Ast.vos Generated.vos Config.vos Model.vos P_Telemetry.vos
