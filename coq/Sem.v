(** * A core semantics for C01: values, events, an adversarial world and the binary-[+] rewriter
    with the real identifier-mode rule and children-first counter.

    The world is a pair of arbitrary functions of the history: [respond] answers every observable
    interaction (the result of [+] on two values -- which stands for the coercions of both operands --
    and of a call), [ustore] gives the value of every user variable *as a function of the history*, so
    any interaction may change any user variable.  Temporaries live in a separate store that the
    world cannot touch (C06: they are block-local [let]s).  Hooks are pass-through: they evaluate
    their arguments (pure reads) and return the first. *)
From Coq Require Import List String Arith Lia Bool.
Import ListNotations.
Set Implicit Arguments.

(* ---- values, events, world ---- *)
Inductive value := VUndef | VStr (s : string) | VObj (n : nat).
Inductive event := EvAdd (a b : value) | EvCall (f : value) (args : list value).
Definition hist := list event.
Inductive resp := RRet (v : value) | RThr (v : value).

Section Sem.
Variable respond : hist -> event -> resp.       (* adversarial, deterministic in the history *)
Variable ustore  : hist -> string -> value.      (* user variables: arbitrary function of the history *)

Inductive expr :=
| Lit (v : value)
| Var (x : string)
| Tmp (n : nat)
| Add (l r : expr)
| CallE (f : expr) (a : expr)                    (* unary call: enough for the spike *)
| Hoist2 (n1 : nat) (e1 : expr) (n2 : nat) (e2 : expr) (body : expr)   (* (t1 = e1, t2 = e2, body) *)
| Hoist1 (n1 : nat) (e1 : expr) (body : expr)
| Hook (first : expr) (args : list expr).

Definition tenv := nat -> value.
Definition upd (t : tenv) (n : nat) (v : value) : tenv := fun m => if Nat.eqb m n then v else t m.

Inductive out := Ret (v : value) | Thr (v : value).
Definition st := (hist * tenv)%type.

Definition fire (ev : event) (s : st) : out * st :=
  let '(h, t) := s in
  match respond h ev with
  | RRet v => (Ret v, (h ++ [ev], t))
  | RThr v => (Thr v, (h ++ [ev], t))
  end.

Definition bind (m : out * st) (k : value -> st -> out * st) : out * st :=
  match m with
  | (Ret v, s) => k v s
  | (Thr v, s) => (Thr v, s)
  end.

Fixpoint eval (e : expr) (s : st) : out * st :=
  match e with
  | Lit v => (Ret v, s)
  | Var x => (Ret (ustore (fst s) x), s)
  | Tmp n => (Ret (snd s n), s)
  | Add l r => bind (eval l s) (fun a s1 => bind (eval r s1) (fun b s2 => fire (EvAdd a b) s2))
  | CallE f a => bind (eval f s) (fun vf s1 => bind (eval a s1) (fun va s2 => fire (EvCall vf [va]) s2))
  | Hoist2 n1 e1 n2 e2 body =>
      bind (eval e1 s) (fun v1 s1 =>
      let s1' := (fst s1, upd (snd s1) n1 v1) in
      bind (eval e2 s1') (fun v2 s2 =>
      let s2' := (fst s2, upd (snd s2) n2 v2) in
      eval body s2'))
  | Hoist1 n1 e1 body =>
      bind (eval e1 s) (fun v1 s1 => eval body (fst s1, upd (snd s1) n1 v1))
  | Hook first args =>
      bind (eval first s) (fun v s1 =>
        (* pass-through hook: arguments are evaluated (they are pure reads), result is v *)
        (fix go (as_ : list expr) (s : st) : out * st :=
           match as_ with
           | [] => (Ret v, s)
           | a :: rest => bind (eval a s) (fun _ s' => go rest s')
           end) args s1)
  end.

(* ---- the rewriter (binary + only), children first, counter threaded ---- *)
Definition is_triv (e : expr) : bool := match e with Lit _ | Var _ => true | _ => false end.
Definition is_lit (e : expr) : bool := match e with Lit _ => true | _ => false end.

Fixpoint rw (e : expr) (c : nat) : expr * nat :=
  match e with
  | Add l r =>
      let '(l', c1) := rw l c in
      let '(r', c2) := rw r c1 in
      match is_triv l', is_triv r' with
      | true, true =>
          if is_lit l' && is_lit r' then (Add l' r', c2)
          else (Hook (Add l' r') [l'; r'], c2)
      | true, false =>       (* right is effectful: left identifier must be hoisted too (literal stays) *)
          if is_lit l' then (Hoist1 c2 r' (Hook (Add l' (Tmp c2)) [l'; Tmp c2]), S c2)
          else (Hoist2 c2 l' (S c2) r' (Hook (Add (Tmp c2) (Tmp (S c2))) [Tmp c2; Tmp (S c2)]), S (S c2))
      | false, true =>       (* left hoisted, right identifier/literal kept *)
          (Hoist1 c2 l' (Hook (Add (Tmp c2) r') [Tmp c2; r']), S c2)
      | false, false =>
          (Hoist2 c2 l' (S c2) r' (Hook (Add (Tmp c2) (Tmp (S c2))) [Tmp c2; Tmp (S c2)]), S (S c2))
      end
  | CallE f a => let '(f', c1) := rw f c in let '(a', c2) := rw a c1 in (CallE f' a', c2)
  | _ => (e, c)
  end.

(* source programs: no temps, no instrumentation *)
Fixpoint src (e : expr) : Prop :=
  match e with
  | Lit _ | Var _ => True
  | Add l r => src l /\ src r
  | CallE f a => src f /\ src a
  | _ => False
  end.

(* temps assigned / read by an expression lie in [lo, hi) *)
Fixpoint temps_in (lo hi : nat) (e : expr) : Prop :=
  match e with
  | Lit _ | Var _ => True
  | Tmp n => lo <= n < hi
  | Add l r => temps_in lo hi l /\ temps_in lo hi r
  | CallE f a => temps_in lo hi f /\ temps_in lo hi a
  | Hoist2 n1 e1 n2 e2 b => lo <= n1 < hi /\ lo <= n2 < hi /\ temps_in lo hi e1 /\ temps_in lo hi e2 /\ temps_in lo hi b
  | Hoist1 n1 e1 b => lo <= n1 < hi /\ temps_in lo hi e1 /\ temps_in lo hi b
  | Hook f args => temps_in lo hi f /\ (fix go (l : list expr) : Prop := match l with [] => True | a :: r => temps_in lo hi a /\ go r end) args
  end.

Definition agree_below (lo : nat) (t t' : tenv) : Prop := forall n, n < lo -> t n = t' n.

End Sem.

