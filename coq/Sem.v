(** * A core semantics for C01: values, events, an adversarial world and the binary-[+] rewriter
    with the real identifier-mode rule and children-first counter (tied to the implementation by
    SemTie.v: the check compares [rw] with what the code produces on every core expression tried).

    The world is a pair of arbitrary functions of the history: [respond] answers every observable
    interaction (the result of [+] on two values -- which stands for the coercions of both operands --
    and of a call), [ustore] gives the value of every user variable *as a function of the history*, so
    any interaction may change any user variable.  Temporaries live in a separate store that the
    world cannot touch (C06: they are block-local [let]s).  Hooks are pass-through: they evaluate
    their arguments (pure reads) and return the first. *)
From Coq Require Import List String Arith Lia Bool.
Import ListNotations.
Set Implicit Arguments.

(* ---- values, events, world ---- *)
Inductive value := VUndef | VStr (s : string) | VObj (n : nat).
Inductive event :=
| EvAdd (a b : value)
| EvCall (f : value) (args : list value)
| EvGet (o : value) (k : string)                         (* property read o.k *)
| EvCallT (f this : value) (args : list value)           (* call of f with an explicit receiver *)
| EvSet (o : value) (k : string) (v : value)             (* property write o.k = v *)
| EvWrite (x : string) (v : value)                       (* assignment to a user variable *)
| EvStr (v : value)                                      (* implicit coercion of a template substitution to a string *)
| EvGetV (o k : value)                                   (* property read o[k] with a computed key *)
| EvSetV (o k v : value).                                (* property write o[k] = v with a computed key *)
Definition hist := list event.
Inductive resp := RRet (v : value) | RThr (v : value).

Section Sem.
Variable respond : hist -> event -> resp.       (* adversarial, deterministic in the history *)
Variable ustore  : hist -> string -> value.      (* user variables: arbitrary function of the history *)

Inductive expr :=
| Lit (v : value)
| Var (x : string)
| Tmp (n : nat)
| Add (l r : expr)
| CallE (f : expr) (a : expr)                    (* unary call: enough for the spike *)
| Par (e : expr)                                 (* parentheses written by the user: not an identifier, not a [+] *)
| AddAsgV (x : string) (e : expr)                (* x += e *)
| AddAsgM (o : expr) (k : string) (e : expr)     (* o.k += e *)
| AsgV (x : string) (e : expr)                   (* x = e, as the rewriter builds it *)
| AsgM (o : expr) (k : string) (e : expr)        (* o.k = e, as the rewriter builds it *)
| MCall0 (o : expr) (m : string)                 (* method call o.m() *)
| CallT0 (f this : expr)                         (* f.call(this) *)
| MCall1 (o : expr) (m : string) (a : expr)      (* method call o.m(a) *)
| Get (o : expr) (m : string)                    (* o.m, as the rewriter reads the function to call *)
| CallT1 (f this a : expr)                       (* f.call(this, a) *)
| Hoist3 (n1 : nat) (e1 : expr) (n2 : nat) (e2 : expr) (n3 : nat) (e3 : expr) (body : expr)
| Hoist2 (n1 : nat) (e1 : expr) (n2 : nat) (e2 : expr) (body : expr)   (* (t1 = e1, t2 = e2, body) *)
| Hoist1 (n1 : nat) (e1 : expr) (body : expr)
| Hook (first : expr) (args : list expr)
| Tpl1 (q0 : string) (e : expr) (q1 : string)                            (* `q0${e}q1` *)
| Tpl2 (q0 : string) (e1 : expr) (q1 : string) (e2 : expr) (q2 : string)  (* `q0${e1}q1${e2}q2` *)
| OptMCall0 (o : expr) (m : string)              (* o?.m() *)
| OptMCall1 (o : expr) (m : string) (a : expr)   (* o?.m(a) *)
| Guard (n : nat) (e : expr) (body : expr)       (* (t_n = e, t_n == null ? undefined : body) *)
| AddAsgC (o k e : expr)                         (* o[k] += e: a computed key *)
| GetC (o k : expr)                              (* o[k], as the rewriter reads the old value *)
| AsgC (o k e : expr).                           (* o[k] = e, as the rewriter builds it *)

Definition tenv := nat -> value.
Definition upd (t : tenv) (n : nat) (v : value) : tenv := fun m => if Nat.eqb m n then v else t m.

Inductive out := Ret (v : value) | Thr (v : value).
Definition st := (hist * tenv)%type.

Definition fire (ev : event) (s : st) : out * st :=
  let '(h, t) := s in
  match respond h ev with
  | RRet v => (Ret v, (h ++ [ev], t))
  | RThr v => (Thr v, (h ++ [ev], t))
  end.

Definition bind (m : out * st) (k : value -> st -> out * st) : out * st :=
  match m with
  | (Ret v, s) => k v s
  | (Thr v, s) => (Thr v, s)
  end.

(** [+] on two primitive strings is a concatenation: no user code runs, nothing is observable. *)
Definition pure_add (a b : value) : option value :=
  match a, b with
  | VStr x, VStr y => Some (VStr (x ++ y))
  | _, _ => None
  end.

Definition do_add (a b : value) (s : st) : out * st :=
  match pure_add a b with
  | Some v => (Ret v, s)
  | None => fire (EvAdd a b) s
  end.

(** The coercion of a template substitution: nothing to observe on a primitive string, an interaction with the
    world (the object's [toString] / [Symbol.toPrimitive]) otherwise. *)
Definition do_str (v : value) (s : st) : out * st :=
  match v with
  | VStr _ => (Ret v, s)
  | _ => fire (EvStr v) s
  end.

Definition cat (a b : value) : value :=
  match a, b with
  | VStr x, VStr y => VStr (x ++ y)
  | _, _ => VUndef
  end.

(** What a template does once its substitutions have been evaluated: they are coerced, left to right, and the
    pieces are concatenated. *)
Definition tpl1_tail (q0 : string) (v : value) (q1 : string) (s : st) : out * st :=
  bind (do_str v s) (fun r s2 => (Ret (cat (cat (VStr q0) r) (VStr q1)), s2)).
Definition tpl2_tail (q0 : string) (v1 : value) (q1 : string) (v2 : value) (q2 : string) (s : st) : out * st :=
  bind (do_str v1 s) (fun r1 s2 => bind (do_str v2 s2) (fun r2 s3 =>
    (Ret (cat (cat (cat (cat (VStr q0) r1) (VStr q1)) r2) (VStr q2)), s3))).

(** What an optional link short-circuits on (the model has one nullish value). *)
Definition nullish (v : value) : bool := match v with VUndef => true | _ => false end.

Fixpoint eval (e : expr) (s : st) : out * st :=
  match e with
  | Lit v => (Ret v, s)
  | Var x => (Ret (ustore (fst s) x), s)
  | Tmp n => (Ret (snd s n), s)
  | Add l r => bind (eval l s) (fun a s1 => bind (eval r s1) (fun b s2 => do_add a b s2))
  | CallE f a => bind (eval f s) (fun vf s1 => bind (eval a s1) (fun va s2 => fire (EvCall vf [va]) s2))
  | Par e => eval e s
  | AddAsgV x e =>
      (* the variable is read first, then the right-hand side is evaluated, then the sum is stored *)
      let v1 := ustore (fst s) x in
      bind (eval e s) (fun v2 s2 => bind (do_add v1 v2 s2) (fun r s3 =>
      bind (fire (EvWrite x r) s3) (fun _ s4 => (Ret r, s4))))
  | AddAsgM o k e =>
      bind (eval o s) (fun vo s1 => bind (fire (EvGet vo k) s1) (fun v1 s2 =>
      bind (eval e s2) (fun v2 s3 => bind (do_add v1 v2 s3) (fun r s4 =>
      bind (fire (EvSet vo k r) s4) (fun _ s5 => (Ret r, s5))))))
  | AsgV x e =>
      bind (eval e s) (fun r s1 => bind (fire (EvWrite x r) s1) (fun _ s2 => (Ret r, s2)))
  | AsgM o k e =>
      bind (eval o s) (fun vo s1 => bind (eval e s1) (fun r s2 =>
      bind (fire (EvSet vo k r) s2) (fun _ s3 => (Ret r, s3))))
  | MCall0 o m =>
      bind (eval o s) (fun vo s1 => bind (fire (EvGet vo m) s1) (fun vf s2 => fire (EvCallT vf vo []) s2))
  | CallT0 f this =>
      bind (eval f s) (fun vf s1 => bind (eval this s1) (fun vt s2 => fire (EvCallT vf vt []) s2))
  | MCall1 o m a =>
      bind (eval o s) (fun vo s1 => bind (fire (EvGet vo m) s1) (fun vf s2 =>
      bind (eval a s2) (fun va s3 => fire (EvCallT vf vo [va]) s3)))
  | Get o m => bind (eval o s) (fun vo s1 => fire (EvGet vo m) s1)
  | CallT1 f this a =>
      bind (eval f s) (fun vf s1 => bind (eval this s1) (fun vt s2 =>
      bind (eval a s2) (fun va s3 => fire (EvCallT vf vt [va]) s3)))
  | Hoist3 n1 e1 n2 e2 n3 e3 body =>
      bind (eval e1 s) (fun v1 s1 =>
      let s1' := (fst s1, upd (snd s1) n1 v1) in
      bind (eval e2 s1') (fun v2 s2 =>
      let s2' := (fst s2, upd (snd s2) n2 v2) in
      bind (eval e3 s2') (fun v3 s3 =>
      eval body (fst s3, upd (snd s3) n3 v3))))
  | Hoist2 n1 e1 n2 e2 body =>
      bind (eval e1 s) (fun v1 s1 =>
      let s1' := (fst s1, upd (snd s1) n1 v1) in
      bind (eval e2 s1') (fun v2 s2 =>
      let s2' := (fst s2, upd (snd s2) n2 v2) in
      eval body s2'))
  | Hoist1 n1 e1 body =>
      bind (eval e1 s) (fun v1 s1 => eval body (fst s1, upd (snd s1) n1 v1))
  | Hook first args =>
      bind (eval first s) (fun v s1 =>
        (* pass-through hook: arguments are evaluated (they are pure reads), result is v *)
        (fix go (as_ : list expr) (s : st) : out * st :=
           match as_ with
           | [] => (Ret v, s)
           | a :: rest => bind (eval a s) (fun _ s' => go rest s')
           end) args s1)
  | Tpl1 q0 e1 q1 => bind (eval e1 s) (fun v s1 => tpl1_tail q0 v q1 s1)
  | Tpl2 q0 e1 q1 e2 q2 =>
      (* C01 identifies executions that differ only in the moment at which a substitution is coerced relative
         to the evaluation of LATER substitutions; the representative taken here coerces after all of them
         have been evaluated (the standard one coerces each right after its evaluation) *)
      bind (eval e1 s) (fun v1 s1 => bind (eval e2 s1) (fun v2 s2 => tpl2_tail q0 v1 q1 v2 q2 s2))
  | OptMCall0 o m =>
      bind (eval o s) (fun vo s1 =>
        if nullish vo then (Ret VUndef, s1)
        else bind (fire (EvGet vo m) s1) (fun vf s2 => fire (EvCallT vf vo []) s2))
  | OptMCall1 o m a =>
      (* the whole rest of the chain -- the read of the method, the argument -- is skipped when the receiver is nullish *)
      bind (eval o s) (fun vo s1 =>
        if nullish vo then (Ret VUndef, s1)
        else bind (fire (EvGet vo m) s1) (fun vf s2 =>
             bind (eval a s2) (fun va s3 => fire (EvCallT vf vo [va]) s3)))
  | Guard n e1 body =>
      bind (eval e1 s) (fun v s1 =>
        let s1' := (fst s1, upd (snd s1) n v) in
        if nullish v then (Ret VUndef, s1') else eval body s1')
  | AddAsgC o k e1 =>
      (* the object, then the key, then the old value is read, then the right-hand side, then the sum is stored
         (the coercion of the key to a property key is part of the read and of the write) *)
      bind (eval o s) (fun vo s1 => bind (eval k s1) (fun vk s2 => bind (fire (EvGetV vo vk) s2) (fun v1 s3 =>
      bind (eval e1 s3) (fun v2 s4 => bind (do_add v1 v2 s4) (fun r s5 =>
      bind (fire (EvSetV vo vk r) s5) (fun _ s6 => (Ret r, s6)))))))
  | GetC o k =>
      bind (eval o s) (fun vo s1 => bind (eval k s1) (fun vk s2 => fire (EvGetV vo vk) s2))
  | AsgC o k e1 =>
      (* the target (object and key) is evaluated before the right-hand side *)
      bind (eval o s) (fun vo s1 => bind (eval k s1) (fun vk s2 => bind (eval e1 s2) (fun r s3 =>
      bind (fire (EvSetV vo vk r) s3) (fun _ s4 => (Ret r, s4)))))
  end.

(* ---- the rewriter (binary + only), children first, counter threaded ---- *)
Definition is_triv (e : expr) : bool := match e with Lit _ | Var _ => true | _ => false end.
Definition is_lit (e : expr) : bool := match e with Lit _ => true | _ => false end.

(** What happens to an operand of [+] (operand_handler.rs, [replace_expr] with [IdentMode]):
    - a literal stays and is passed to the hook;
    - an identifier stays and is passed to the hook when the rule allows it, otherwise it is hoisted:
      the left one stays iff the right operand is an identifier or a literal, the right one stays
      unless the (rewritten) left operand is a [+] left in place;
    - an operand that still is a [+] after its own rewriting (a sum of literals) stays in place and
      contributes NO argument;
    - anything else is hoisted into a fresh temporary, which is passed to the hook. *)
Inductive act := Keep | Stay | Hoist.

Definition left_act (l' r' : expr) : act :=
  match l' with
  | Lit _ => Keep
  | Var _ => if is_triv r' then Keep else Hoist
  | Add _ _ => Stay
  | _ => Hoist
  end.

Definition right_act (l' r' : expr) : act :=
  match r' with
  | Lit _ => Keep
  | Var _ => match l' with Add _ _ => Hoist | _ => Keep end
  | Add _ _ => Stay
  | _ => Hoist
  end.

Definition wrap (binds : list (nat * expr)) (body : expr) : expr :=
  match binds with
  | [] => body
  | [(n1, e1)] => Hoist1 n1 e1 body
  | [(n1, e1); (n2, e2)] => Hoist2 n1 e1 n2 e2 body
  | (n1, e1) :: (n2, e2) :: (n3, e3) :: _ => Hoist3 n1 e1 n2 e2 n3 e3 body
  end.

Definition rw_add (l' r' : expr) (c2 : nat) : expr * nat :=
  let la := left_act l' r' in
  let ra := right_act l' r' in
  let '(l2, bl, c3) := match la with Hoist => (Tmp c2, [(c2, l')], S c2) | _ => (l', [], c2) end in
  let '(r2, br, c4) := match ra with Hoist => (Tmp c3, [(c3, r')], S c3) | _ => (r', [], c3) end in
  let args := (match la with Stay => [] | _ => [l2] end) ++ (match ra with Stay => [] | _ => [r2] end) in
  if forallb is_lit args then (Add l' r', c2)          (* must_replace is false: untouched *)
  else (wrap (bl ++ br) (Hook (Add l2 r2) args), c4).

(** Which method names are instrumented, and which of them also on a literal receiver
    (the configuration; [csi_get] and [allows_literal_callers] of the model). *)
Variable instr : string -> bool.
Variable lit_ok : string -> bool.
(** ... and which names are instrumented as BARE calls [f(a)] (methods "allowed without callee"). *)
Variable awc : string -> bool.
(** ... and whether [+] / [+=] are instrumented at all (the plus operator is configured). *)
Variable plus_on : bool.

(** [replace_with_member]: the receiver is captured (a literal stays), the function is read from it into a
    temporary, the argument is captured unless it is a literal or a sum left in place (which is not passed
    to the hook), and the call becomes [f.call(receiver, argument)]. *)
Definition arg_act (a' : expr) : act :=
  match a' with Lit _ => Keep | Add _ _ => Stay | _ => Hoist end.

(** [to_dd_call_expr] looks at a method call only when its receiver is a literal, an identifier, a call, a
    parenthesised expression or a member (an array literal too: not in this fragment) -- not when it is a
    template literal that was left alone. *)
Definition recv_ok (o' : expr) : bool :=
  match o' with
  | Lit _ | Var _ | Tmp _ | CallE _ _ | MCall0 _ _ | MCall1 _ _ _ | CallT0 _ _ | CallT1 _ _ _ | Hook _ _
  | Par _ | Hoist1 _ _ _ | Hoist2 _ _ _ _ _ | Hoist3 _ _ _ _ _ _ _ => true
  | Get _ k => negb (String.eqb k "prototype")      (* a.b.m() but not X.prototype.m() *)
  | GetC _ _ => true                                (* a[k].m() *)
  | _ => false
  end.

Definition rw_mcall (o' : expr) (m : string) (a' : expr) (c2 : nat) : expr * nat :=
  let '(r, br, c3) := if is_lit o' then (o', [], c2) else (Tmp c2, [(c2, o')], S c2) in
  let f := Tmp c3 in
  let c4 := S c3 in
  let '(a2, ba, c5) := match arg_act a' with Hoist => (Tmp c4, [(c4, a')], S c4) | _ => (a', [], c4) end in
  (wrap (br ++ [(c3, Get r m)] ++ ba)
        (Hook (CallT1 f r a2) ([f; r] ++ match arg_act a' with Stay => [] | _ => [a2] end)), c5).

Definition rw_mcall0 (o' : expr) (m : string) (c1 : nat) : expr * nat :=
  let '(r, br, c3) := if is_lit o' then (o', [], c1) else (Tmp c1, [(c1, o')], S c1) in
  (wrap (br ++ [(c3, Get r m)]) (Hook (CallT0 (Tmp c3) r) [Tmp c3; r]), S c3).

(** [assign_add_transform]: [target += e] becomes [target = hook(target + e, ..)]; a sum on the right keeps its
    grouping (it is parenthesised); the object of a member target is captured unless it is an identifier or a
    literal, and what is left of the target is read once into a temporary by the binary transformation. *)
Definition group_sum (e' : expr) : expr := match e' with Add _ _ => Par e' | _ => e' end.

Definition rw_addasg_v (x : string) (e' : expr) (c1 : nat) : expr * nat :=
  let '(sum, c2) := rw_add (Var x) (group_sum e') c1 in
  (AsgV x sum, c2).

Definition rw_addasg_m (o' : expr) (k : string) (e' : expr) (c2 : nat) : expr * nat :=
  let '(ob, bo, c3) := if is_triv o' then (o', [], c2) else (Tmp c2, [(c2, o')], S c2) in
  let '(sum, c4) := rw_add (Get ob k) (group_sum e') c3 in
  (wrap bo (AsgM ob k sum), c4).

(** The same with a computed key, [o[k] += e]: the key is captured unless it is an identifier or a literal, and
    when the key is captured the object is captured first, whatever it is (a literal excepted): JavaScript reads
    the object before it evaluates the key (finding 17m). *)
Definition rw_addasg_c (o' k' e' : expr) (c3 : nat) : expr * nat :=
  let hk := negb (is_triv k') in
  let '(ob, bo, c4) := if is_lit o' || (is_triv o' && negb hk) then (o', [], c3) else (Tmp c3, [(c3, o')], S c3) in
  let '(kb, bk, c5) := if hk then (Tmp c4, [(c4, k')], S c4) else (k', [], c4) in
  let '(sum, c6) := rw_add (GetC ob kb) (group_sum e') c5 in
  (wrap (bo ++ bk) (AsgC ob kb sum), c6).

(** [to_dd_tpl_expr]: every substitution is captured ([IdentMode::Replace]: identifiers too) unless it is a
    literal or a sum left in place (which is not passed to the hook); the hook is called on the template itself. *)
Definition rw_tpl1 (q0 : string) (e' : expr) (q1 : string) (c1 : nat) : expr * nat :=
  let '(x, b, c2) := match arg_act e' with Hoist => (Tmp c1, [(c1, e')], S c1) | _ => (e', [], c1) end in
  (wrap b (Hook (Tpl1 q0 x q1) (match arg_act e' with Stay => [] | _ => [x] end)), c2).

Definition rw_tpl2 (q0 : string) (e1' : expr) (q1 : string) (e2' : expr) (q2 : string) (c2 : nat) : expr * nat :=
  let '(x1, b1, c3) := match arg_act e1' with Hoist => (Tmp c2, [(c2, e1')], S c2) | _ => (e1', [], c2) end in
  let '(x2, b2, c4) := match arg_act e2' with Hoist => (Tmp c3, [(c3, e2')], S c3) | _ => (e2', [], c3) end in
  (wrap (b1 ++ b2) (Hook (Tpl2 q0 x1 q1 x2 q2)
     ((match arg_act e1' with Stay => [] | _ => [x1] end) ++ (match arg_act e2' with Stay => [] | _ => [x2] end))), c4).

(** [replace_call_expr_if_csi_method_without_callee]: the argument is captured (Replace mode: identifiers too) unless it is a
    literal or a sum left in place; the callee IDENTIFIER stays where it is and is handed to the hook, with [undefined] for
    the receiver.  (It is therefore read after the argument has been evaluated: C01_bare_call_refuted.) *)
Definition rw_bare (name : string) (a' : expr) (c2 : nat) : expr * nat :=
  let '(a2, ba, c3) := match arg_act a' with Hoist => (Tmp c2, [(c2, a')], S c2) | _ => (a', [], c2) end in
  (wrap ba (Hook (CallE (Var name) a2)
                 ([Var name; Var "undefined"] ++ match arg_act a' with Stay => [] | _ => [a2] end)), c3).

Fixpoint rw (e : expr) (c : nat) : expr * nat :=
  match e with
  | Add l r =>
      let '(l', c1) := rw l c in
      let '(r', c2) := rw r c1 in
      if plus_on then rw_add l' r' c2 else (Add l' r', c2)
  | CallE f a =>
      let '(f', c1) := rw f c in
      let '(a', c2) := rw a c1 in
      match f' with
      | Var name => if awc name then rw_bare name a' c2 else (CallE f' a', c2)
      | _ => (CallE f' a', c2)
      end
  | Par x => let '(x', c1) := rw x c in (Par x', c1)
  | AddAsgV x e1 => let '(e', c1) := rw e1 c in if plus_on then rw_addasg_v x e' c1 else (AddAsgV x e', c1)
  | AddAsgM o k e1 =>
      let '(o', c1) := rw o c in
      let '(e', c2) := rw e1 c1 in
      if plus_on then rw_addasg_m o' k e' c2 else (AddAsgM o' k e', c2)
  | MCall0 o m =>
      let '(o', c1) := rw o c in
      if instr m && (negb (is_lit o') || lit_ok m) && recv_ok o' then rw_mcall0 o' m c1 else (MCall0 o' m, c1)
  | MCall1 o m a =>
      let '(o', c1) := rw o c in
      let '(a', c2) := rw a c1 in
      if instr m && (negb (is_lit o') || lit_ok m) && recv_ok o' then rw_mcall o' m a' c2 else (MCall1 o' m a', c2)
  | Get o k => let '(o', c1) := rw o c in (Get o' k, c1)       (* a property read: nothing to instrument *)
  | Tpl1 q0 e1 q1 =>
      (* a template with a literal substitution is left alone, and its substitutions are not visited *)
      if is_lit e1 then (e, c) else let '(e', c1) := rw e1 c in rw_tpl1 q0 e' q1 c1
  | Tpl2 q0 e1 q1 e2 q2 =>
      if is_lit e1 || is_lit e2 then (e, c)
      else let '(e1', c1) := rw e1 c in let '(e2', c2) := rw e2 c1 in rw_tpl2 q0 e1' q1 e2' q2 c2
  | OptMCall0 o m =>
      (* [to_dd_cond_expr] runs BEFORE the parts of the chain are visited: the guard temporary comes first, the receiver is
         rewritten next, and the call on the guard temporary -- an identifier, captured once more -- is instrumented last;
         a chain on a literal receiver, or with a method that is not configured, is left alone and its parts are visited *)
      if instr m && negb (is_lit o)
      then let '(o', c1) := rw o (S c) in
           let '(body, c2) := rw_mcall0 (Tmp c) m c1 in
           (Guard c o' body, c2)
      else let '(o', c1) := rw o c in (OptMCall0 o' m, c1)
  | OptMCall1 o m a =>
      if instr m && negb (is_lit o)
      then let '(o', c1) := rw o (S c) in
           let '(a', c2) := rw a c1 in
           let '(body, c3) := rw_mcall (Tmp c) m a' c2 in
           (Guard c o' body, c3)
      else let '(o', c1) := rw o c in let '(a', c2) := rw a c1 in (OptMCall1 o' m a', c2)
  | AddAsgC o k e1 =>
      let '(o', c1) := rw o c in
      let '(k', c2) := rw k c1 in
      let '(e', c3) := rw e1 c2 in
      if plus_on then rw_addasg_c o' k' e' c3 else (AddAsgC o' k' e', c3)
  | GetC o k =>                                     (* a property read with a computed key: nothing to instrument *)
      let '(o', c1) := rw o c in let '(k', c2) := rw k c1 in (GetC o' k', c2)
  | _ => (e, c)
  end.

(** The expression as a whole stands at the ROOT of the operation visitor: the counter of temporaries starts again after
    every instrumented operation that is not nested in another one.  With the plus operator configured only the outermost
    parentheses separate the root from the first operation; without it a sum (or compound assignment) is transparent and
    each of its operands is a root of its own: [b.slice() + `${a}`] numbers the temporaries of both operands from 0. *)
Fixpoint rw_root (e : expr) : expr :=
  match e with
  | Par x => Par (rw_root x)
  | Get o k => Get (rw_root o) k
  | Add l r => if plus_on then fst (rw e 0) else Add (rw_root l) (rw_root r)
  | AddAsgV x e1 => if plus_on then fst (rw e 0) else AddAsgV x (rw_root e1)
  | AddAsgM o k e1 => if plus_on then fst (rw e 0) else AddAsgM (rw_root o) k (rw_root e1)
  | AddAsgC o k e1 => if plus_on then fst (rw e 0) else AddAsgC (rw_root o) (rw_root k) (rw_root e1)
  | GetC o k => GetC (rw_root o) (rw_root k)          (* object and key are roots of their own *)
  | _ => fst (rw e 0)
  end.

(* source programs: no temps, no instrumentation *)
Fixpoint src (e : expr) : Prop :=
  match e with
  | Lit (VStr _) | Var _ => True            (* literals of the fragment are strings *)
  | Lit _ => False
  | Add l r => src l /\ src r
  | CallE f a => src f /\ src a
  | Par x => src x
  | AddAsgV _ e1 => src e1
  | AddAsgM o _ e1 => src o /\ src e1
  | MCall0 o _ => src o
  | MCall1 o _ a => src o /\ src a
  | Get o _ => src o                         (* a property read o.k *)
  | Tpl1 _ e1 _ => src e1
  | Tpl2 _ e1 _ e2 _ => src e1 /\ src e2
  | OptMCall0 o _ => src o
  | OptMCall1 o _ a => src o /\ src a
  | AddAsgC o k e1 => src o /\ src k /\ src e1
  | GetC o k => src o /\ src k                 (* a property read o[k] *)
  | _ => False
  end.

(* temps assigned / read by an expression lie in [lo, hi) *)
Fixpoint temps_in (lo hi : nat) (e : expr) : Prop :=
  match e with
  | Lit _ | Var _ => True
  | Tmp n => lo <= n < hi
  | Add l r => temps_in lo hi l /\ temps_in lo hi r
  | CallE f a => temps_in lo hi f /\ temps_in lo hi a
  | Par x => temps_in lo hi x
  | AddAsgV _ e1 => temps_in lo hi e1
  | AddAsgM o _ e1 => temps_in lo hi o /\ temps_in lo hi e1
  | AsgV _ e1 => temps_in lo hi e1
  | AsgM o _ e1 => temps_in lo hi o /\ temps_in lo hi e1
  | MCall0 o _ => temps_in lo hi o
  | CallT0 f t => temps_in lo hi f /\ temps_in lo hi t
  | MCall1 o _ a => temps_in lo hi o /\ temps_in lo hi a
  | Get o _ => temps_in lo hi o
  | CallT1 f t a => temps_in lo hi f /\ temps_in lo hi t /\ temps_in lo hi a
  | Hoist3 n1 e1 n2 e2 n3 e3 b => lo <= n1 < hi /\ lo <= n2 < hi /\ lo <= n3 < hi /\ temps_in lo hi e1 /\ temps_in lo hi e2 /\ temps_in lo hi e3 /\ temps_in lo hi b
  | Hoist2 n1 e1 n2 e2 b => lo <= n1 < hi /\ lo <= n2 < hi /\ temps_in lo hi e1 /\ temps_in lo hi e2 /\ temps_in lo hi b
  | Hoist1 n1 e1 b => lo <= n1 < hi /\ temps_in lo hi e1 /\ temps_in lo hi b
  | Hook f args => temps_in lo hi f /\ (fix go (l : list expr) : Prop := match l with [] => True | a :: r => temps_in lo hi a /\ go r end) args
  | Tpl1 _ e1 _ => temps_in lo hi e1
  | Tpl2 _ e1 _ e2 _ => temps_in lo hi e1 /\ temps_in lo hi e2
  | OptMCall0 o _ => temps_in lo hi o
  | OptMCall1 o _ a => temps_in lo hi o /\ temps_in lo hi a
  | Guard n e1 b => lo <= n < hi /\ temps_in lo hi e1 /\ temps_in lo hi b
  | AddAsgC o k e1 | AsgC o k e1 => temps_in lo hi o /\ temps_in lo hi k /\ temps_in lo hi e1
  | GetC o k => temps_in lo hi o /\ temps_in lo hi k
  end.

Definition agree_below (lo : nat) (t t' : tenv) : Prop := forall n, n < lo -> t n = t' n.

End Sem.

