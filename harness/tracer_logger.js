'use strict'

let defaultLogger = console || {}
function setLogger (logger) {
  if (logger) {
    defaultLogger = logger
  }
}

function log (level, msg) {
  const logFn = defaultLogger[level.toLowerCase()]
  if (logFn) {
    logFn(msg)
  }
}

module.exports = {
  setLogger,
  log
}
