//! Native harness: runs the real rewriter (built from /repo's working tree with the verif cfg)
//! on cases read from a JSONL file and writes, per call, everything the checks compare:
//! resolved configuration, syntax trees before/after the transformation (tapped inside
//! `transform_js`), printed code, map, content, metrics, literals, errors and panics.
//!
//! Input  (one JSON object per line):
//!   {"id": str, "config": <RewriterConfig json | null>, "fs": {path: {"data": str} | {"err": str}},
//!    "calls": [{"code": str, "file": str}], "opts": {"reparse": bool, "extract": bool, "no_parent": [paths]}}
//! Output (one JSON object per line, same order): {"id","config":{..},"prefix":sexp,"calls":[{...}]}
//!
//! Trees are written as S-expressions by a *generic* walk over swc's own serde serialization:
//!   (K <type> <lo> <hi> child*)  object with a "type" (children = remaining fields in order)
//!   (O child*)                   object without a type (e.g. ExprOrSpread, spans other than "span")
//!   (L child*)                   array          N null     T / F booleans
//!   "text"                       string (bytes outside 0x20..0x7e and `"`/`\` as \xHH)
//!   #text                        number (serde_json's rendering)
//! "Identifier" objects without a "ctxt" field (swc's IdentName) are written with type IdentName.
use native_iast_rewriter::verif_hooks as vh;
use serde_json::{json, Map, Value};
use std::collections::HashMap;
use std::io::{BufRead, BufWriter, Cursor, Write};
use std::panic::{catch_unwind, AssertUnwindSafe};
use std::path::{Path, PathBuf};

struct MemReader {
    files: HashMap<PathBuf, Result<Vec<u8>, String>>,
    no_parent: Vec<PathBuf>,
    wasm_parent: bool,
}

impl vh::FileReader<Cursor<Vec<u8>>> for MemReader {
    fn read(&self, path: &Path) -> std::io::Result<Cursor<Vec<u8>>> {
        match self.files.get(path) {
            Some(Ok(data)) => Ok(Cursor::new(data.clone())),
            Some(Err(e)) => Err(std::io::Error::new(std::io::ErrorKind::Other, e.clone())),
            None => Err(std::io::Error::new(std::io::ErrorKind::NotFound, "not found")),
        }
    }
    fn parent(&self, path: &Path) -> Option<PathBuf> {
        if self.no_parent.iter().any(|p| p == path) {
            return None;
        }
        if self.wasm_parent {
            // what WasmFileReader does: node's path.dirname, which never fails on a string
            let s = path.to_str()?;
            return Some(PathBuf::from(node_dirname(s)));
        }
        path.parent().map(PathBuf::from)
    }
}

/// POSIX `path.dirname` of Node.js.
fn node_dirname(p: &str) -> String {
    if p.is_empty() {
        return ".".to_string();
    }
    let b = p.as_bytes();
    let has_root = b[0] == b'/';
    let mut end: isize = -1;
    let mut matched_slash = true;
    let mut i = b.len() as isize - 1;
    while i >= 1 {
        if b[i as usize] == b'/' {
            if !matched_slash {
                end = i;
                break;
            }
        } else {
            matched_slash = false;
        }
        i -= 1;
    }
    if end == -1 {
        return if has_root { "/".to_string() } else { ".".to_string() };
    }
    if has_root && end == 1 {
        return "//".to_string();
    }
    p[..end as usize].to_string()
}

fn esc(s: &str, out: &mut String) {
    out.push('"');
    for &b in s.as_bytes() {
        if (0x20..0x7f).contains(&b) && b != b'"' && b != b'\\' {
            out.push(b as char);
        } else {
            out.push_str(&format!("\\x{:02x}", b));
        }
    }
    out.push('"');
}

fn span_of(o: &Map<String, Value>) -> (u64, u64) {
    match o.get("span") {
        Some(Value::Object(s)) => (
            s.get("start").and_then(|v| v.as_u64()).unwrap_or(0),
            s.get("end").and_then(|v| v.as_u64()).unwrap_or(0),
        ),
        _ => (0, 0),
    }
}

fn sexp(v: &Value, out: &mut String) {
    match v {
        Value::Null => out.push('N'),
        Value::Bool(true) => out.push('T'),
        Value::Bool(false) => out.push('F'),
        Value::Number(n) => {
            out.push('#');
            out.push_str(&n.to_string());
        }
        Value::String(s) => esc(s, out),
        Value::Array(a) => {
            out.push_str("(L");
            for x in a {
                out.push(' ');
                sexp(x, out);
            }
            out.push(')');
        }
        Value::Object(o) => {
            if let Some(Value::String(ty)) = o.get("type") {
                let (lo, hi) = span_of(o);
                let ty: &str = if ty == "Identifier" && !o.contains_key("ctxt") {
                    "IdentName"
                } else {
                    ty
                };
                out.push_str(&format!("(K {} {} {}", ty, lo, hi));
                for (k, x) in o {
                    if k == "type" || k == "span" {
                        continue;
                    }
                    out.push(' ');
                    sexp(x, out);
                }
                out.push(')');
            } else {
                out.push_str("(O");
                for (_k, x) in o {
                    out.push(' ');
                    sexp(x, out);
                }
                out.push(')');
            }
        }
    }
}

fn sexp_of<T: serde::Serialize>(t: &T) -> String {
    let v = serde_json::to_value(t).unwrap();
    let mut s = String::new();
    sexp(&v, &mut s);
    s
}

thread_local! {
    // where the last panic was raised (file:line of the panicking code), recorded by the panic hook
    static LAST_PANIC_AT: std::cell::RefCell<String> = std::cell::RefCell::new(String::new());
}

fn panic_msg(e: Box<dyn std::any::Any + Send>) -> String {
    let at = LAST_PANIC_AT.with(|l| l.borrow().clone());
    let msg = if let Some(s) = e.downcast_ref::<&str>() {
        s.to_string()
    } else if let Some(s) = e.downcast_ref::<String>() {
        s.clone()
    } else {
        "panic".to_string()
    };
    if at.is_empty() {
        msg
    } else {
        format!("{msg} [at {at}]")
    }
}

fn verbosity_str(v: &vh::TelemetryVerbosity) -> &'static str {
    match v {
        vh::TelemetryVerbosity::Off => "OFF",
        vh::TelemetryVerbosity::Mandatory => "MANDATORY",
        vh::TelemetryVerbosity::Information => "INFORMATION",
        vh::TelemetryVerbosity::Debug => "DEBUG",
    }
}

fn config_json(c: &vh::Config) -> Value {
    json!({
        "chainSourceMap": c.chain_source_map,
        "comments": c.print_comments,
        "localVarPrefix": c.local_var_prefix,
        "literals": c.literals,
        "verbosity": verbosity_str(&c.verbosity),
        "methods": c.csi_methods.methods.iter().map(|m| json!({
            "src": m.src, "dst": m.dst, "operator": m.operator, "allowedWithoutCallee": m.allowed_without_callee
        })).collect::<Vec<_>>(),
        "plusOperator": c.csi_methods.plus_operator.as_ref().map(|m| m.dst.clone()),
        "tplOperator": c.csi_methods.tpl_operator.as_ref().map(|m| m.dst.clone()),
        "literalCallers": c.csi_methods.method_with_literal_callers,
        "csiMethods": vh::wasm_hooks::csi_methods_of(c),
    })
}

fn run_call(config: &vh::Config, reader: &MemReader, call: &Value, opts: &Value) -> Value {
    let code = call["code"].as_str().unwrap_or("").to_string();
    let file = call["file"].as_str().unwrap_or("").to_string();
    let want_ast = opts.get("ast").and_then(|v| v.as_bool()).unwrap_or(true);
    let reparse = opts.get("reparse").and_then(|v| v.as_bool()).unwrap_or(false);
    let _ = vh::take_taps();
    let mut out = Map::new();

    // 1. the package-level call (what Rewriter::rewrite does, minus JsValue conversion)
    let r = catch_unwind(AssertUnwindSafe(|| {
        vh::wasm_hooks::rewrite_native(config, code.clone(), &file, reader)
    }));
    let taps = vh::take_taps();
    if want_ast {
        for (stage, p) in taps.iter() {
            out.insert(stage.to_string(), Value::String(sexp_of(p)));
        }
    }
    let mut content: Option<String> = None;
    match r {
        Err(e) => {
            out.insert("outcome".into(), json!("panic"));
            out.insert("panic".into(), json!(panic_msg(e)));
        }
        Ok(Err(msg)) => {
            out.insert("outcome".into(), json!("error"));
            out.insert("error".into(), json!(msg));
        }
        Ok(Ok(res)) => {
            out.insert("outcome".into(), json!("ok"));
            out.insert("result".into(), serde_json::to_value(&res).unwrap());
            content = Some(res.content);
        }
    }

    // 2. the pieces: rewrite_js output before print_js (code, map, original map/comment)
    if opts.get("pieces").and_then(|v| v.as_bool()).unwrap_or(false) {
        let r2 = catch_unwind(AssertUnwindSafe(|| {
            vh::rewrite_js(code.clone(), &file, config, reader)
        }));
        let _ = vh::take_taps();
        if let Ok(Ok(o)) = r2 {
            let orig = o.original_source_map.source.as_ref().map(|sm| {
                let mut v: Vec<u8> = vec![];
                sm.to_writer(&mut v).ok();
                String::from_utf8_lossy(&v).to_string()
            });
            let chained = vh::rewriter_hooks::chain_source_maps_hook(
                &o.source_map,
                &o.original_source_map.source,
                config,
            );
            out.insert(
                "pieces".into(),
                json!({
                    "code": o.code, "sourceMap": o.source_map,
                    "originalMap": orig, "comment": o.original_source_map.source_map_comment,
                    "chained": chained,
                }),
            );
        }
    }

    // 3. what a consumer of `content` would parse
    if reparse {
        if let Some(c) = content {
            let r3 = catch_unwind(AssertUnwindSafe(|| {
                vh::rewriter_hooks::parse_program(c, &file)
            }));
            match r3 {
                Ok(Ok(p)) => {
                    out.insert("ast_reparsed".into(), Value::String(sexp_of(&p)));
                }
                Ok(Err(e)) => {
                    out.insert("reparse_error".into(), json!(format!("{e}")));
                }
                Err(e) => {
                    out.insert("reparse_error".into(), json!(format!("panic: {}", panic_msg(e))));
                }
            }
        }
    }
    Value::Object(out)
}

fn run_case(case: &Value) -> Value {
    let id = case["id"].clone();
    let opts = case.get("opts").cloned().unwrap_or(json!({}));
    let mut files = HashMap::new();
    if let Some(Value::Object(fs)) = case.get("fs") {
        for (p, v) in fs {
            let e = if let Some(d) = v.get("data").and_then(|d| d.as_str()) {
                Ok(d.as_bytes().to_vec())
            } else {
                Err(v.get("err").and_then(|d| d.as_str()).unwrap_or("err").to_string())
            };
            files.insert(PathBuf::from(p), e);
        }
    }
    let no_parent = opts
        .get("no_parent")
        .and_then(|v| v.as_array())
        .map(|a| a.iter().filter_map(|x| x.as_str()).map(PathBuf::from).collect())
        .unwrap_or_default();
    let wasm_parent = opts.get("wasm_parent").and_then(|v| v.as_bool()).unwrap_or(false);
    let reader = MemReader { files, no_parent, wasm_parent };

    let cfg_text = serde_json::to_string(case.get("config").unwrap_or(&Value::Null)).unwrap();
    let config = catch_unwind(AssertUnwindSafe(|| {
        let mut de = serde_json::Deserializer::from_str(&cfg_text);
        vh::wasm_hooks::config_from(&mut de)
    }));
    let config = match config {
        Ok(c) => c,
        Err(e) => return json!({"id": id, "config_panic": panic_msg(e)}),
    };
    let mut calls_out = vec![];
    if let Some(Value::Array(calls)) = case.get("calls") {
        for call in calls {
            calls_out.push(run_call(&config, &reader, call, &opts));
        }
    }
    json!({
        "id": id,
        "config": config_json(&config),
        "prefix": sexp_of(&config.file_prefix_code),
        "calls": calls_out,
    })
}

fn main() {
    let args: Vec<String> = std::env::args().collect();
    if args.len() < 3 {
        eprintln!("usage: harness <cases.jsonl> <out.jsonl>");
        std::process::exit(2);
    }
    std::panic::set_hook(Box::new(|info| {
        let at = info
            .location()
            .map(|l| {
                // registry paths are long: keep crate directory and file
                let f = l.file();
                let short = f.rsplitn(4, '/').collect::<Vec<_>>().into_iter().rev().collect::<Vec<_>>().join("/");
                format!("{}:{}", short, l.line())
            })
            .unwrap_or_default();
        LAST_PANIC_AT.with(|l| *l.borrow_mut() = at);
    }));
    let input = std::io::BufReader::new(std::fs::File::open(&args[1]).expect("open input"));
    let mut output = BufWriter::new(std::fs::File::create(&args[2]).expect("create output"));
    for line in input.lines() {
        let line = line.expect("read");
        if line.trim().is_empty() {
            continue;
        }
        let case: Value = serde_json::from_str(&line).expect("case json");
        // a panic outside the guarded calls must not lose the rest of the batch
        let res = catch_unwind(AssertUnwindSafe(|| run_case(&case)))
            .unwrap_or_else(|e| json!({"id": case["id"], "harness_panic": panic_msg(e)}));
        serde_json::to_writer(&mut output, &res).unwrap();
        output.write_all(b"\n").unwrap();
    }
    output.flush().unwrap();
}
